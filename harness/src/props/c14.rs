//! C14 — execution is deterministic and step-through agrees with the trace.
//!
//! (a) configuration lattice: same (program, inputs, advice) run twice, with tracing on, with other
//!     capacity hints, assembled in debug mode, and with debug/emit/trace decorators stripped from
//!     the source: byte-identical main trace, outputs and cycle count.
//! (b) random forward/backward walks of the step iterator; every reported VmState(t) is compared
//!     with row t of the trace: clk, ctx, fmp, top-16, depth, deep part (overflow model rebuilt
//!     from the trace's own shifts) and memory (memory-chiplet history with clk < t).
//! (c) every CLK row pushes its own clock value.

use crate::case::{exec_host, AsmOutcome, Case, ExecOutcome};
use crate::gen::{gen_case, GenCfg};
use crate::props::c03::traces_equal;
use crate::report::{merge_all, Cfg, Meta, Report};
use crate::tview::*;
use crate::util::{catch, par_map, rng_for, Rng8};
use processor::{ExecutionOptions, ExecutionTrace, Program, VmState};
use rand::Rng;
use serde_json::json;
use std::collections::BTreeMap;
use vm_core::StarkField;

pub fn meta() -> Meta {
    Meta {
        level: "exploration",
        rule: "each evaluation = one (program, inputs) pushed through the configuration lattice (2 identical runs, tracing flag, 2 capacity hints, debug-mode assembly, decorator-stripped source; main traces compared cell by cell) or one VmState reported by execute_iter during a random next()/back() walk compared with the trace row of the same clock; distinct = distinct (check kind, configuration or walk-direction pattern, deep-inputs?, call-active?, trace length)".into(),
        assumptions: vec![
            "the trace of a plain processor::execute run is the reference for the iterator".into(),
            "deep part of the stack is only compared in the root context outside syscalls (where the whole stack is visible)".into(),
        ],
    }
}

fn strip_decorators(src: &str) -> String {
    src.split('\n')
        .map(|line| {
            line.split(' ')
                .filter(|t| !(t.starts_with("debug.") || t.starts_with("emit.") || t.starts_with("trace.")))
                .collect::<Vec<_>>()
                .join(" ")
        })
        .collect::<Vec<_>>()
        .join("\n")
}

fn lattice(case: &Case, prog: &Program, base: &ExecutionTrace, rep: &mut Report) {
    let deep = case.stack.len() > 16;
    let wit = |cfgname: &str| json!({"kind": "lattice", "case": case.to_json(), "config": cfgname});
    let mut cmp = |name: &str, out: ExecOutcome, rep: &mut Report| {
        rep.eval(&format!("lattice|{name}|{deep}|{}", base.get_trace_len()));
        rep.count("lattice", name);
        match out {
            ExecOutcome::Ok(t) => {
                if let Some((c, r)) = traces_equal(base, &t) {
                    rep.violation(format!("nondeterminism/{name}/main-trace"), format!("main trace differs under '{name}' at col {c} row {r}"), wit(name));
                }
                if t.stack_outputs().stack() != base.stack_outputs().stack()
                    || t.stack_outputs().overflow_addrs() != base.stack_outputs().overflow_addrs()
                {
                    rep.violation(format!("nondeterminism/{name}/outputs"), format!("outputs differ under '{name}'"), wit(name));
                }
            }
            other => rep.violation(format!("nondeterminism/{name}/outcome"), format!("'{name}': {} instead of success", other.class()), wit(name)),
        }
    };
    cmp("rerun", case.execute(prog), rep);
    cmp("tracing-on", case.execute_with(prog, ExecutionOptions::default().with_tracing()), rep);
    let c = base.trace_len_summary().main_trace_len() as u32;
    for (name, hint) in [("hint-exact", c.max(64)), ("hint-4x", c.max(64).saturating_mul(4)), ("hint-min", 64)] {
        if let Ok(o) = ExecutionOptions::new(None, hint, false) {
            cmp(name, case.execute_with(prog, o), rep);
        }
    }
    // debug-mode assembly: same MAST, only AsmOp decorators added
    let mut dcase = case.clone();
    dcase.debug_mode = !case.debug_mode;
    match dcase.assemble() {
        AsmOutcome::Ok(p2) => {
            if p2.hash() != prog.hash() {
                rep.violation("debug-mode/program-hash", "assembling in debug mode changes the program hash", wit("debug-mode"));
            } else {
                cmp("debug-mode-assembly", dcase.execute(&p2), rep);
            }
        }
        AsmOutcome::Err(e) => rep.violation("debug-mode/asm-err", format!("debug-mode assembly failed: {e}"), wit("debug-mode")),
        AsmOutcome::Panic(p) => {
            rep.count("debug_mode_asm_panic", &p.site());
        }
    }
    // decorators stripped
    let stripped = strip_decorators(&case.src);
    if stripped != case.src {
        let mut scase = case.clone();
        scase.src = stripped;
        if let Some(k) = &case.kernel {
            scase.kernel = Some(strip_decorators(k));
        }
        match scase.assemble() {
            AsmOutcome::Ok(p3) => {
                if p3.hash() == prog.hash() {
                    cmp("decorators-stripped", scase.execute(&p3), rep);
                } else {
                    // stripping can only change the hash if a block became empty; count it
                    rep.count("strip", "hash-changed(skipped)");
                }
            }
            _ => rep.count("strip", "asm-failed(skipped)"),
        }
    }
}

/// Overflow model rebuilt from the trace: full stack (top first) at every row of the root context.
struct StackModel {
    /// per row: Some(deep part, top first) when the whole stack is visible
    deep: Vec<Option<Vec<u64>>>,
    /// the operation at this row pushed to / popped from the overflow table
    update_at: Vec<bool>,
}

impl StackModel {
    /// What the iterator of the unrepaired tree reports (known finding, see known_findings.json):
    /// an overflow update made by the operation at row t is already visible at clock t (one cycle
    /// early), and before the first update the rows of the initial deep inputs are missing.
    fn known_defect_view(&self, t: usize) -> Option<(Vec<u64>, &'static str)> {
        if t + 1 >= self.deep.len() {
            return None; // the last clock is reported from the live table and is right
        }
        if self.update_at[t] {
            return self.deep[t + 1].clone().map(|d| (d, "overflow-part-one-cycle-ahead"));
        }
        if !self.update_at[..t].iter().any(|u| *u) {
            return Some((vec![], "initial-overflow-rows-missing"));
        }
        None
    }
}

fn build_stack_model(case: &Case, tv: &TV) -> StackModel {
    let n = tv.cycles + 1;
    let mut deep: Vec<Option<Vec<u64>>> = Vec::with_capacity(n);
    let mut update_at = vec![false; n];
    let mut cur: Vec<u64> = case.stack.iter().skip(16).cloned().collect(); // top of overflow first
    let mut saved: Vec<Vec<u64>> = vec![];
    for row in 0..n {
        let in_root = tv.get(CTX, row) == 0 && tv.get(IN_SYSCALL, row) == 0 && saved.is_empty();
        deep.push(if in_root { Some(cur.clone()) } else { None });
        if row + 1 >= n {
            break;
        }
        let op = tv.op(row);
        let (b0, b0n) = (tv.get(B0, row), tv.get(B0, row + 1));
        if op == OP_CALL || op == OP_SYSCALL {
            saved.push(std::mem::take(&mut cur));
        } else if op == OP_END && (tv.get(HASHER + 6, row) == 1 || tv.get(HASHER + 7, row) == 1) {
            cur = saved.pop().unwrap_or_default();
        } else if b0n == b0 + 1 {
            cur.insert(0, tv.get(STACK + 15, row));
            update_at[row] = true;
        } else if b0n + 1 == b0 && b0 > 16 && !cur.is_empty() {
            cur.remove(0);
            update_at[row] = true;
        }
    }
    StackModel { deep, update_at }
}

fn check_state(
    st: &VmState,
    tv: &TV,
    model: &StackModel,
    mem_hist: &BTreeMap<(u64, u64), Vec<(u64, [u64; 4])>>,
    dir: &str,
    case: &Case,
    rep: &mut Report,
) {
    let t = st.clk as usize;
    let wit = || json!({"kind": "walk", "case": case.to_json(), "clk": t, "direction": dir});
    if t > tv.cycles {
        rep.violation("iter/clk-beyond-end", format!("iterator reported clk {t} > cycles {}", tv.cycles), wit());
        return;
    }
    let ctx: u32 = st.ctx.into();
    if tv.get(CLK, t) != t as u64 {
        rep.violation("trace/clk-column", format!("clk column at row {t} is {}", tv.get(CLK, t)), wit());
    }
    if ctx as u64 != tv.get(CTX, t) {
        rep.violation(format!("iter/ctx/{dir}"), format!("ctx at clk {t}: iterator {ctx} trace {}", tv.get(CTX, t)), wit());
    }
    if st.fmp.as_int() != tv.get(FMP, t) {
        rep.violation(format!("iter/fmp/{dir}"), format!("fmp at clk {t}: iterator {} trace {}", st.fmp.as_int(), tv.get(FMP, t)), wit());
    }
    let top = tv.stack_top(t);
    let got: Vec<u64> = st.stack.iter().map(|x| x.as_int()).collect();
    if got.len() < 16 || got[..16] != top[..] {
        rep.violation(format!("iter/stack-top/{dir}"), format!("top-16 at clk {t}: iterator {:?} trace {:?}", &got[..got.len().min(16)], top), wit());
    }
    if let Some(deep) = &model.deep[t] {
        rep.count("deep_checked", if deep.is_empty() { "depth16" } else { "deeper" });
        let b0 = tv.get(B0, t) as usize;
        let class = if case.stack.len() > 16 { "deep-inputs" } else { "shallow-inputs" };
        let got_deep: &[u64] = if got.len() >= 16 { &got[16..] } else { &[] };
        if got.len() == b0 && got_deep == &deep[..] {
            // agrees with the trace
        } else if let Some((view, which)) = model.known_defect_view(t).filter(|(v, _)| &v[..] == got_deep) {
            // exactly the behaviour of the listed defect; anything else is reported below
            let _ = view;
            rep.violation(
                format!("iter/{which}"),
                format!("deep part at clk {t}: iterator {:?}, trace row {t} has depth {b0} and overflow {:?}", got_deep, deep),
                wit(),
            );
        } else if got.len() != b0 {
            rep.violation(format!("iter/stack-depth/{dir}/{class}"), format!("depth at clk {t}: iterator {} trace b0 {b0}", got.len()), wit());
        } else {
            rep.violation(format!("iter/stack-deep/{dir}/{class}"), format!("deep part at clk {t}: iterator {:?} model {:?}", got_deep, deep), wit());
        }
    }
    // memory of the current context: all addresses accessed at a clock < t, with their last value
    let mut expect: Vec<(u64, [u64; 4])> = vec![];
    for ((c, addr), hist) in mem_hist.range((ctx as u64, 0)..(ctx as u64 + 1, 0)) {
        debug_assert_eq!(*c, ctx as u64);
        if let Some((_, w)) = hist.iter().filter(|(clk, _)| (*clk as usize) < t).last() {
            expect.push((*addr, *w));
        }
    }
    let mut gotm: Vec<(u64, [u64; 4])> =
        st.memory.iter().map(|(a, w)| (*a, [w[0].as_int(), w[1].as_int(), w[2].as_int(), w[3].as_int()])).collect();
    gotm.sort();
    expect.sort();
    if gotm != expect {
        rep.violation(format!("iter/memory/{dir}"), format!("memory of ctx {ctx} at clk {t}: iterator {:?} trace history {:?}", gotm, expect), wit());
    }
}

fn walk(case: &Case, prog: &Program, base: &ExecutionTrace, rng: &mut Rng8, rep: &mut Report) {
    let tv = TV::new(base);
    let model = build_stack_model(case, &tv);
    let mut mem_hist: BTreeMap<(u64, u64), Vec<(u64, [u64; 4])>> = BTreeMap::new();
    for r in tv.mem_rows() {
        mem_hist.entry((r.ctx, r.addr)).or_default().push((r.clk, r.word));
    }
    for h in mem_hist.values_mut() {
        h.sort();
    }
    let si = case.stack_inputs();
    let host = case.host();
    let mut it = match catch(|| processor::execute_iter(prog, si, host)) {
        Ok(it) => it,
        Err(p) => {
            rep.violation(format!("iter/panic/{}", p.site()), format!("execute_iter panicked: {}", p.message), json!({"kind": "walk", "case": case.to_json()}));
            return;
        }
    };
    let deep = case.stack.len() > 16;
    let calls = (0..tv.cycles).any(|r| tv.get(CTX, r) != 0);
    // walk pattern: bursts forward/backward, then a full forward sweep
    let steps = (tv.cycles * 3).min(4000);
    let mut dir_changes = 0;
    let mut forward = true;
    let mut i = 0;
    let mut reached_end = false;
    while i < steps {
        let burst = rng.gen_range(1..30);
        for _ in 0..burst {
            let r = catch(|| if forward { it.next().map(|x| x.ok()) } else { Some(it.back()) });
            match r {
                Ok(Some(Some(st))) => {
                    rep.eval(&format!("walk|{}|{deep}|{calls}|{}", if forward { "fwd" } else { "back" }, base.get_trace_len()));
                    rep.count("walk_states", if forward { "forward" } else { "backward" });
                    check_state(&st, &tv, &model, &mem_hist, if forward { "forward" } else { "backward" }, case, rep);
                }
                Ok(Some(None)) | Ok(None) => {
                    if forward {
                        reached_end = true;
                    }
                    break;
                }
                Err(p) => {
                    rep.violation(format!("iter/panic/{}", p.site()), format!("iterator panicked: {}", p.message), json!({"kind": "walk", "case": case.to_json()}));
                    return;
                }
            }
            i += 1;
        }
        // after the end is reached only go backwards for a while, then forward again
        forward = if reached_end { false } else { rng.gen_bool(0.65) };
        reached_end = false;
        dir_changes += 1;
    }
    rep.count("walk_dir_changes", &format!("{}", (dir_changes / 10) * 10));
    rep.count("walk_class", &format!("deep_inputs={deep},calls={calls}"));
}

fn clk_rows(case: &Case, base: &ExecutionTrace, rep: &mut Report) {
    let tv = TV::new(base);
    for r in 0..tv.cycles {
        if tv.op(r) == OP_CLK {
            rep.evals(1);
            rep.count("clk_rows", "checked");
            if tv.get(STACK, r + 1) != r as u64 {
                rep.violation("clk/pushes-wrong-value", format!("clk at cycle {r} pushed {}", tv.get(STACK, r + 1)), json!({"kind": "lattice", "case": case.to_json()}));
            }
        }
    }
}

pub fn run_case(case: &Case, rng: &mut Rng8, rep: &mut Report, do_walk: bool) {
    let prog = match case.assemble() {
        AsmOutcome::Ok(p) => p,
        _ => {
            rep.count("outcome", "asm-fail");
            return;
        }
    };
    let base = match case.execute(&prog) {
        ExecOutcome::Ok(t) => t,
        _ => {
            rep.count("outcome", "exec-fail");
            return;
        }
    };
    rep.count("outcome", "ok");
    lattice(case, &prog, &base, rep);
    clk_rows(case, &base, rep);
    if do_walk {
        walk(case, &prog, &base, rng, rep);
    }
    if rep.samples.len() < 3 {
        rep.sample(json!({"src": crate::report::truncate(&case.src, 200), "stack_inputs": case.stack.len(), "cycles": base.trace_len_summary().main_trace_len()}));
    }
    let _ = exec_host::<crate::host::QuietHost>;
}

pub fn run(cfg: &Cfg) -> Report {
    let shards = 32;
    let per = cfg.n(80, 1500);
    let reports = par_map(shards, |sh| {
        let mut rng = rng_for(cfg.seed, "C14", sh as u64);
        let mut rep = Report::new();
        for i in 0..per {
            let size = rng.gen_range(3..40);
            let mut gc = GenCfg::random(&mut rng, size);
            if i % 2 == 0 {
                gc.decorators = true;
            }
            let mut case = gen_case(&mut rng, &gc);
            if i % 5 == 0 {
                // make sure the clk instruction is exercised at scripted places
                case.src = case.src.replacen("begin\n", "begin\nclk drop\n", 1).replacen("\nend\n", "\nclk drop\nend\n", 1);
            }
            run_case(&case, &mut rng, &mut rep, true);
        }
        rep
    });
    let mut rep = merge_all(reports);
    rep.floor(rep.get_count("lattice", "debug-mode-assembly") >= 20, "debug-mode-assembly-20x");
    rep.floor(rep.get_count("lattice", "decorators-stripped") >= 10, "decorators-stripped-10x");
    rep.floor(rep.get_count("walk_states", "backward") >= 1000, "1000-backward-states");
    rep.floor(rep.get_count("deep_checked", "deeper") >= 100, "deep-stack-states-100x");
    rep.floor(rep.get_count("clk_rows", "checked") >= 10, "clk-rows-10x");
    rep
}

pub fn replay(v: &serde_json::Value, rep: &mut Report) {
    if let Some(case) = v.get("case").and_then(Case::from_json) {
        let mut rng = rng_for(0, "C14-replay", 0);
        run_case(&case, &mut rng, rep, true);
    }
}
