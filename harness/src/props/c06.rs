//! C06 — control flow and procedure inlining follow the documented semantics.
//!
//! Oracle (a): structured programs from `models::flow` (if/else, while, repeat, exec of local and
//! imported procedures with locals; every leaf logs a unique marker in memory and folds it into an
//! accumulator on the stack; every condition value is scripted through the advice stack) are executed
//! by the real pipeline and by the reference evaluator; the executed path (memory log), the final
//! stack and "fails iff a non-binary condition was popped" are compared.
//! Oracle (b): metamorphic pairs run by the real code only: `repeat.n B end` vs n copies of B,
//! `exec.f` vs the body of f pasted at the call site, and both together.

use crate::case::{err_kind, AsmOutcome, Case, LibSrc};
use crate::models::flow::{
    self, class_of, decision_vector, evaluate, gen_prog, render, signature, DecKind, FlowProg, RefOutcome, Source,
    Variant, LOG_BASE, LOG_PTR, NON_BINARY, PLAIN, SCRATCH_BASE,
};
use crate::report::{merge_all, truncate, Cfg, Meta, Report};
use crate::util::{catch, par_map, rng_for, Rng8, P};
use processor::{ContextId, ExecutionOptions, Process, ProcessState, Program};
use rand::Rng;
use serde_json::{json, Value};
use std::collections::BTreeMap;

pub fn meta() -> Meta {
    Meta {
        level: "exploration",
        rule: "each evaluation = one generated structured program (tree of marker leaves, if/else, while, repeat.n, exec of local/imported procedures with and without locals, nesting up to depth 5) + one condition script (values 0/1/non-binary placed at a chosen decision) executed by the real assembler+processor and compared with the reference evaluator (marker log read back from memory, all final stack positions, fails-iff-non-binary), plus up to three metamorphic variants (repeat unrolled, exec inlined, both) compared on outcome class, final stack and memory; distinct = distinct (nesting signature, decision vector with the position/kind/depth of the non-binary value)".into(),
        assumptions: vec![
            "memory and advice instructions used by the logging leaves (mem_load/mem_store/adv_push, add/mul) behave as documented (checked by C05/C07)".into(),
            "the marker log is read through Process::get_mem_value (cargo feature internals)".into(),
            "programs are generated, not enumerated: nesting depth <= 5, <= 250 leaves after expansion, <= ~300 executed leaves".into(),
        ],
    }
}

// RUNNING THE REAL CODE
// ================================================================================================

#[derive(Clone, Debug, PartialEq, Eq)]
pub enum Outcome {
    Ok,
    Err(String),
    Panic(String),
}

impl Outcome {
    pub fn class(&self) -> String {
        match self {
            Outcome::Ok => "ok".into(),
            Outcome::Err(k) => format!("err:{k}"),
            Outcome::Panic(s) => format!("panic:{s}"),
        }
    }
}

#[derive(Clone, Debug)]
pub struct RealRun {
    pub outcome: Outcome,
    pub detail: String,
    /// final stack, top first (only when ok)
    pub stack: Vec<u64>,
    /// marker log read back from memory (also after a failure)
    pub log: Vec<u64>,
    /// element 0 of every root-context word outside the scratch region that was ever accessed
    pub mem: BTreeMap<u64, [u64; 4]>,
    pub readable: bool,
}

/// Executes through `Process` so that memory can be inspected afterwards, even after a failure.
pub fn run_real(case: &Case, prog: &Program) -> RealRun {
    // bounded: a VM that mis-handles a loop condition must not be able to run away
    let mut process = Process::new(prog.kernel().clone(), case.stack_inputs(), case.host(), ExecutionOptions::new(Some(1 << 18), 64, false).expect("options"));
    let r = catch(|| process.execute(prog));
    let (outcome, detail, stack) = match r {
        Ok(Ok(out)) => (Outcome::Ok, String::new(), out.stack().to_vec()),
        Ok(Err(e)) => (Outcome::Err(err_kind(&e)), format!("{e:?}"), vec![]),
        Err(p) => (Outcome::Panic(p.site()), format!("{} at {}", p.message, p.location), vec![]),
    };
    let mut log = vec![];
    let mut mem = BTreeMap::new();
    let readable = catch(|| {
        let word = |a: u64| -> [u64; 4] {
            process
                .get_mem_value(ContextId::root(), a as u32)
                .map(|w| [w[0].as_int(), w[1].as_int(), w[2].as_int(), w[3].as_int()])
                .unwrap_or([0; 4])
        };
        let n = word(LOG_PTR)[0];
        let mut log = vec![];
        for i in 0..n.min(100_000) {
            log.push(word(LOG_BASE + i)[0]);
        }
        let mut mem = BTreeMap::new();
        for (a, _) in process.get_mem_state(ContextId::root()) {
            mem.insert(a, word(a));
        }
        (log, mem)
    });
    let readable = match readable {
        Ok((l, m)) => {
            log = l;
            mem = m;
            true
        }
        Err(_) => false,
    };
    RealRun { outcome, detail, stack, log, mem, readable }
}

fn make_case(p: &FlowProg, v: Variant, stack: &[u64], script: &[u64]) -> Case {
    let (src, lib) = render(p, v);
    let mut c = Case::new(src).with_stack(stack).with_advice(script);
    let mut modules = vec![];
    if flow::uses_call(p) {
        modules.push(("lib::c".to_string(), flow::call_lib_src()));
    }
    if let Some(l) = lib {
        modules.push(("lib::m".into(), l));
    }
    if !modules.is_empty() {
        c.libs.push(LibSrc { namespace: "lib".into(), modules });
    }
    c
}

fn assemble(case: &Case, rep: &mut Report, what: &str) -> Option<Box<Program>> {
    match case.assemble() {
        AsmOutcome::Ok(p) => Some(p),
        AsmOutcome::Err(e) if e.contains("has the same MAST as another procedure but different number of locals") => {
            // deliberate, explicit assembler diagnostic (procedure cache keyed by MAST root): a library
            // procedure whose whole body is `exec.g` has g's MAST root but its own locals count. Not a
            // control-flow deviation; recorded in the evidence only.
            rep.count("outcome", "asm-rejected:conflicting-num-locals");
            None
        }
        AsmOutcome::Err(e) => {
            rep.count("outcome", "asm-err");
            rep.violation(
                { let _ = what; "flow/assembly-rejected".to_string() },
                format!("a documented-valid structured program was rejected by the assembler: {}", truncate(&e, 200)),
                json!({"kind": "asm", "case": case.to_json()}),
            );
            None
        }
        AsmOutcome::Panic(pi) => {
            rep.count("outcome", "asm-panic");
            rep.violation(
                format!("flow/assembly-panic/{}", pi.site()),
                format!("assembler panicked on a structured program: {} at {}", pi.message, pi.location),
                json!({"kind": "asm", "case": case.to_json()}),
            );
            None
        }
    }
}

// ORACLE (a): reference vs real
// ================================================================================================

pub struct Expect {
    pub fail: Option<(String, usize)>,
    pub log: Vec<u64>,
    pub stack: Vec<u64>,
}

impl Expect {
    fn from_ref(o: &RefOutcome) -> Self {
        Expect { fail: o.fail.map(|(k, d)| (k.name().to_string(), d)), log: o.log.clone(), stack: o.stack.clone() }
    }
    fn to_json(&self) -> Value {
        json!({
            "fail": self.fail.as_ref().map(|(k, d)| json!({"kind": k, "depth": d})),
            "log": self.log,
            "stack": self.stack.iter().map(|v| v.to_string()).collect::<Vec<_>>(),
        })
    }
    fn from_json(v: &Value) -> Option<Self> {
        let fail = v.get("fail").and_then(|f| {
            if f.is_null() {
                None
            } else {
                Some((f["kind"].as_str()?.to_string(), f["depth"].as_u64()? as usize))
            }
        });
        let log = v.get("log")?.as_array()?.iter().filter_map(|x| x.as_u64()).collect();
        let stack = v.get("stack")?.as_array()?.iter().filter_map(|x| x.as_str().and_then(|s| s.parse().ok())).collect();
        Some(Expect { fail, log, stack })
    }
}

fn nb_sig(kind: &str) -> &'static str {
    match kind {
        "if" => "if/non-binary-condition",
        "loop-entry" => "while/non-binary-at-entry",
        _ => "while/non-binary-after-iteration",
    }
}

/// Compares one real run with the expectation of the reference evaluator.
pub fn check_ref(case: &Case, real: &RealRun, exp: &Expect, rep: &mut Report) {
    let wit = || json!({"kind": "ref", "case": case.to_json(), "expect": exp.to_json()});
    rep.count("real_outcome", &real.outcome.class());
    match (&exp.fail, &real.outcome) {
        (None, Outcome::Ok) => {
            if real.log != exp.log {
                rep.violation(
                    "flow/path-mismatch",
                    format!("executed marker sequence {:?} differs from the scripted path {:?}", real.log, exp.log),
                    wit(),
                );
            }
            if real.stack != exp.stack {
                rep.violation(
                    "flow/final-stack-mismatch",
                    format!("final stack {:?} differs from the reference {:?}", real.stack, exp.stack),
                    wit(),
                );
            }
        }
        (None, Outcome::Err(k)) => rep.violation(
            format!("flow/spurious-failure/{k}"),
            format!("all popped conditions were binary but execution failed: {}", real.detail),
            wit(),
        ),
        (_, Outcome::Panic(site)) => {
            let sig = match &exp.fail {
                Some((k, _)) => format!("{}/panic", nb_sig(k)),
                None => format!("flow/panic/{site}"),
            };
            rep.violation(sig, format!("processor panicked ({}); expected {}", real.detail, if exp.fail.is_some() { "an execution error" } else { "success" }), wit());
        }
        (Some((k, d)), Outcome::Ok) => rep.violation(
            format!("{}/accepted", nb_sig(k)),
            format!("a non-binary condition value ({k}, nesting depth {d}) did not make execution fail; executed markers {:?}", real.log),
            wit(),
        ),
        (Some((k, _)), Outcome::Err(ek)) => {
            rep.count("nonbinary_error_kind", &format!("{k}:{ek}"));
            if real.readable && real.log != exp.log {
                rep.violation(
                    "flow/path-before-failure-mismatch",
                    format!("markers executed before the failure {:?} differ from the scripted path {:?}", real.log, exp.log),
                    wit(),
                );
            }
            if ek != "NotBinaryValue" {
                rep.violation(
                    format!("{}/wrong-error/{ek}", nb_sig(k)),
                    format!("expected the non-binary-condition failure, got {}", real.detail),
                    wit(),
                );
            }
        }
    }
}

// ORACLE (b): metamorphic pairs
// ================================================================================================

fn filtered_mem(m: &BTreeMap<u64, [u64; 4]>, skip_scratch: bool) -> BTreeMap<u64, [u64; 4]> {
    m.iter()
        .filter(|(a, w)| {
            if skip_scratch && (**a >= SCRATCH_BASE || (**a >= (1 << 30) && **a < (1 << 31))) {
                return false;
            }
            // a word that was only read (zero) on one side is indistinguishable from an untouched one
            **w != [0; 4]
        })
        .map(|(a, w)| (*a, *w))
        .collect()
}

pub fn check_pair(name: &str, a_case: &Case, a: &RealRun, b_case: &Case, b: &RealRun, locals_involved: bool, rep: &mut Report) {
    let wit = || json!({"kind": "pair", "pair": name, "locals": locals_involved, "case": a_case.to_json(), "case_b": b_case.to_json()});
    rep.count("pairs", name);
    if a.outcome.class() != b.outcome.class() {
        rep.violation(
            format!("{name}/outcome-differs"),
            format!("original: {} ({}), transformed: {} ({})", a.outcome.class(), a.detail, b.outcome.class(), b.detail),
            wit(),
        );
        return;
    }
    if a.stack != b.stack {
        rep.violation(format!("{name}/final-stack-differs"), format!("original {:?} vs transformed {:?}", a.stack, b.stack), wit());
    }
    if a.readable && b.readable {
        if a.log != b.log {
            rep.violation(format!("{name}/log-differs"), format!("original {:?} vs transformed {:?}", a.log, b.log), wit());
        }
        let (ma, mb) = (filtered_mem(&a.mem, locals_involved), filtered_mem(&b.mem, locals_involved));
        if ma != mb {
            rep.violation(format!("{name}/memory-differs"), "root-context memory differs between the two variants".to_string(), wit());
        }
    }
}

// ONE GENERATED CASE
// ================================================================================================

fn uses_repeat(p: &FlowProg, o: &RefOutcome) -> bool {
    let _ = p;
    !o.repeats.is_empty()
}

fn run_one(rng: &mut Rng8, rep: &mut Report, idx: usize) {
    let p = gen_prog(rng);
    let depth = rng.gen_range(16..=24usize);
    let stack: Vec<u64> = (0..depth).map(|i| if i == 0 { rng.gen_range(0..P) } else { crate::util::biased_felt(rng) }).collect();

    // 1. dry run: all-binary script drawn by the policy
    let (dry, mut script) = evaluate(&p, &stack, Source::Gen { rng, script: vec![], leaf_budget: 300 });
    // 2. place a non-binary value at one of the decisions that are actually reached (60 % of the cases)
    let mut placed = None;
    if !dry.decisions.is_empty() && rng.gen_range(0..10) < 6 {
        // prefer the rarest (kind, depth) among the candidates: pick a random kind/depth class first
        let want_kind = [DecKind::If, DecKind::LoopEntry, DecKind::AfterIter][rng.gen_range(0..3)];
        let want_depth = rng.gen_range(1..=3usize);
        let mut cands: Vec<usize> = dry.decisions.iter().filter(|d| d.kind == want_kind && d.depth == want_depth).map(|d| d.idx).collect();
        if cands.is_empty() {
            cands = dry.decisions.iter().filter(|d| d.kind == want_kind).map(|d| d.idx).collect();
        }
        if cands.is_empty() {
            cands = dry.decisions.iter().map(|d| d.idx).collect();
        }
        let j = cands[rng.gen_range(0..cands.len())];
        let v = if rng.gen_range(0..4) == 0 { rng.gen_range(2..P) } else { NON_BINARY[rng.gen_range(0..NON_BINARY.len())] };
        script[j] = v;
        placed = Some(j);
    }
    // spare binary values: if the real code does not stop at the non-binary value it keeps reading
    for _ in 0..48 {
        script.push(rng.gen_range(0..2));
    }
    script.extend([0; 64]);

    // 3. reference run on the final script
    let (refo, _) = evaluate(&p, &stack, Source::Replay { script: &script, pos: 0 });
    if refo.script_exhausted {
        rep.count("outcome", "script-exhausted");
        return;
    }
    let sig = signature(&p);
    let nb = match refo.fail {
        Some((k, d)) => format!("{}@{}", k.name(), d.min(6)),
        None => "none".into(),
    };
    rep.eval(&format!("{sig}|{}|{nb}", decision_vector(&refo, 40)));
    rep.count("nonbinary_at", &nb);
    for d in &refo.decisions {
        rep.count("decisions", &format!("{}={}@{}", d.kind.name(), class_of(d.value), d.depth.min(6)));
    }
    for it in &refo.loop_iters {
        rep.count("loop_iters", &(if *it >= 2 { ">=2".to_string() } else { it.to_string() }));
    }
    for n in &refo.repeats {
        rep.count("repeat_n", &n.to_string());
    }
    for (imp, loc) in &refo.execs {
        rep.count("exec_kind", &format!("{}-{}", if *imp { "imported" } else { "local" }, if *loc { "locals" } else { "nolocals" }));
    }
    if refo.fail.is_none() {
        rep.count_n("call_leaves", "executed", refo.calls as u64);
        rep.count_n("call_leaves", "inside-exec-of-imported-procedure", refo.calls_in_imported as u64);
    }
    rep.count("max_decision_depth", &refo.decisions.iter().map(|d| d.depth).max().unwrap_or(0).to_string());
    rep.count("stack_depth_in", &depth.to_string());
    let _ = placed;

    // 4. real run of the program as written
    let case = make_case(&p, PLAIN, &stack, &script);
    let prog = match assemble(&case, rep, "plain") {
        Some(x) => x,
        None => return,
    };
    let real = run_real(&case, &prog);
    let exp = Expect::from_ref(&refo);
    check_ref(&case, &real, &exp, rep);
    if idx % 97 == 0 {
        rep.sample(json!({"src": truncate(&case.src, 500), "script": script.iter().take(refo.decisions.len()).collect::<Vec<_>>(), "expected_fail": nb, "log": refo.log, "outcome": real.outcome.class()}));
    }

    // 5. metamorphic variants (real code only)
    let has_exec = !refo.execs.is_empty() || contains_exec(&p, &p.main);
    let has_rep = uses_repeat(&p, &refo) || contains_repeat(&p, &p.main);
    let locals_involved = exec_with_locals(&p, &p.main);
    let mut variants: Vec<(&str, Variant, bool)> = vec![];
    if has_rep {
        variants.push(("repeat-vs-copies", Variant { unroll: true, inline: false }, false));
    }
    if has_exec {
        variants.push(("exec-vs-inlined", Variant { unroll: false, inline: true }, locals_involved));
    }
    if has_exec && has_rep {
        variants.push(("repeat+exec-vs-expanded", Variant { unroll: true, inline: true }, locals_involved));
    }
    for (name, v, loc) in variants {
        let c2 = make_case(&p, v, &stack, &script);
        let p2 = match assemble(&c2, rep, name) {
            Some(x) => x,
            None => continue,
        };
        let r2 = run_real(&c2, &p2);
        check_pair(name, &case, &real, &c2, &r2, loc, rep);
        if name == "exec-vs-inlined" {
            rep.count("exec_inline_pairs", if loc { "with-locals" } else { "no-locals" });
        }
    }

    // 6. ~1 % of successful executions also go through the AIR monitor
    if real.outcome == Outcome::Ok && rng.gen_range(0..100) == 0 {
        if let crate::case::ExecOutcome::Ok(mut t) = case.execute(&prog) {
            rep.count("air_monitored", "trace");
            crate::props::c03::monitor_trace(&case, &mut t, rng, 1, 0, rep);
        }
    }
}

fn walk(p: &FlowProg, b: &[flow::Node], f: &mut dyn FnMut(&flow::Node), depth: usize) {
    for n in b {
        f(n);
        match n {
            flow::Node::If { then_, else_ } => {
                walk(p, then_, f, depth);
                if let Some(e) = else_ {
                    walk(p, e, f, depth);
                }
            }
            flow::Node::While { body } | flow::Node::Repeat { body, .. } => walk(p, body, f, depth),
            flow::Node::Exec { proc_ } if depth < 16 => walk(p, &p.procs[*proc_].body, f, depth + 1),
            _ => {}
        }
    }
}

fn contains_exec(p: &FlowProg, b: &[flow::Node]) -> bool {
    let mut x = false;
    walk(p, b, &mut |n| x |= matches!(n, flow::Node::Exec { .. }), 0);
    x
}
fn contains_repeat(p: &FlowProg, b: &[flow::Node]) -> bool {
    let mut x = false;
    walk(p, b, &mut |n| x |= matches!(n, flow::Node::Repeat { .. }), 0);
    x
}
fn exec_with_locals(p: &FlowProg, b: &[flow::Node]) -> bool {
    let mut x = false;
    walk(p, b, &mut |n| {
        if let flow::Node::Exec { proc_ } = n {
            x |= p.procs[*proc_].locals > 0
        }
    }, 0);
    x
}

// FIXED WITNESS PROGRAMS (minimal forms of the three non-binary placements, depth 1)
// ================================================================================================

fn fixed_cases(rep: &mut Report) {
    let progs: [(&str, &str, &str); 6] = [
        ("if", "begin push.2 if.true push.7 else push.8 end end", "if"),
        ("loop-entry", "begin push.2 while.true push.0 end end", "loop-entry"),
        ("after-iteration", "begin push.1 while.true push.2 end end", "after-iteration"),
        ("if", "begin push.18446744069414584320 if.true push.7 else push.8 end end", "if"),
        ("loop-entry", "begin push.4294967296 while.true push.0 end end", "loop-entry"),
        ("after-iteration", "begin push.1 while.true push.18446744069414584320 end end", "after-iteration"),
    ];
    for (name, src, kind) in progs {
        let case = Case::new(src);
        rep.eval(&format!("fixed|{src}"));
        rep.count("fixed_witness", name);
        let prog = match assemble(&case, rep, "fixed") {
            Some(p) => p,
            None => continue,
        };
        let real = run_real(&case, &prog);
        let exp = Expect { fail: Some((kind.to_string(), 1)), log: vec![], stack: vec![] };
        check_ref(&case, &real, &exp, rep);
    }
}

pub fn run(cfg: &Cfg) -> Report {
    let shards = 64;
    let per = cfg.n(4000, 40000);
    let mut reports = par_map(shards, |sh| {
        let mut rng = rng_for(cfg.seed, "C06", sh as u64);
        let mut rep = Report::new();
        for i in 0..per {
            run_one(&mut rng, &mut rep, i);
        }
        rep
    });
    let mut fx = Report::new();
    fixed_cases(&mut fx);
    reports.push(fx);
    let mut rep = merge_all(reports);
    for kind in ["if", "loop-entry", "after-iteration"] {
        for d in 1..=3 {
            let k = format!("{kind}@{d}");
            rep.floor(rep.get_count("nonbinary_at", &k) >= 3, &format!("non-binary-{k}"));
        }
    }
    for it in ["0", "1", ">=2"] {
        rep.floor(rep.get_count("loop_iters", it) >= 10, &format!("loops-with-{it}-iterations"));
    }
    rep.floor(rep.get_count("repeat_n", "1") >= 5 && rep.hist_len("repeat_n") >= 4, "repeat-counts-1-and-up");
    for k in ["local-nolocals", "local-locals", "imported-nolocals", "imported-locals"] {
        rep.floor(rep.get_count("exec_kind", k) >= 5, &format!("exec-{k}"));
    }
    for k in ["repeat-vs-copies", "exec-vs-inlined", "repeat+exec-vs-expanded"] {
        rep.floor(rep.get_count("pairs", k) >= 20, &format!("pairs-{k}"));
    }
    rep.floor(rep.get_count("exec_inline_pairs", "with-locals") >= 5 && rep.get_count("exec_inline_pairs", "no-locals") >= 5, "exec-inline-pairs-with-and-without-locals");
    rep.floor(rep.get_count("call_leaves", "inside-exec-of-imported-procedure") >= 20, "calls-inside-exec-of-imported-procedures");
    rep.floor(rep.get_count("real_outcome", "ok") >= 50, "at-least-50-successful-executions");
    rep.floor(rep.get_count("air_monitored", "trace") >= 1, "air-monitor-sampled");
    rep
}

pub fn replay(v: &Value, rep: &mut Report) {
    let case = match v.get("case").and_then(Case::from_json) {
        Some(c) => c,
        None => return,
    };
    match v.get("kind").and_then(|k| k.as_str()).unwrap_or("") {
        "ref" => {
            let exp = match v.get("expect").and_then(Expect::from_json) {
                Some(e) => e,
                None => return,
            };
            if let Some(prog) = assemble(&case, rep, "replay") {
                rep.eval("replay-ref");
                let real = run_real(&case, &prog);
                check_ref(&case, &real, &exp, rep);
            }
        }
        "pair" => {
            let cb = match v.get("case_b").and_then(Case::from_json) {
                Some(c) => c,
                None => return,
            };
            let name = v.get("pair").and_then(|s| s.as_str()).unwrap_or("pair").to_string();
            let loc = v.get("locals").and_then(|b| b.as_bool()).unwrap_or(true);
            if let (Some(pa), Some(pb)) = (assemble(&case, rep, "replay"), assemble(&cb, rep, "replay")) {
                rep.eval("replay-pair");
                let (ra, rb) = (run_real(&case, &pa), run_real(&cb, &pb));
                check_pair(&name, &case, &ra, &cb, &rb, loc, rep);
            }
        }
        "asm" => {
            rep.eval("replay-asm");
            let _ = assemble(&case, rep, "replay");
        }
        "case" => {
            // from the AIR side monitor
            let mut rng = rng_for(0, "C06-replay", 0);
            if let Some(prog) = assemble(&case, rep, "replay") {
                if let crate::case::ExecOutcome::Ok(mut t) = case.execute(&prog) {
                    rep.eval("replay-air");
                    crate::props::c03::monitor_trace(&case, &mut t, &mut rng, 1, 0, rep);
                }
            }
        }
        _ => {}
    }
}
