//! C13 — the decoded operation stream is exactly the program.
//!
//! T-dec: an independent MAST walker, driven by the decisions OBSERVED in the trace (stack top at
//! SPLIT / LOOP rows and before REPEAT / END of loops, the target word at DYN rows), produces the
//! operation stream the program prescribes; spans are decoded from their GROUP VALUES (the hash
//! pre-image), not from `ops()`. It is compared with the op bits of the decoder columns and with the
//! operations reported by the step iterator; NOOPs are allowed only at the documented alignment
//! places; span bookkeeping columns (in_span, group_count) and the final program hash are checked.

use crate::case::{AsmOutcome, Case, ExecOutcome};
use crate::gen::{gen_case, GenCfg};
use crate::report::{merge_all, Cfg, Meta, Report};
use crate::tair::op_name;
use crate::tview::*;
use crate::util::{catch, par_map, rng_for, Rng8, P};
use processor::{ExecutionTrace, Program};
use rand::Rng;
use serde_json::json;
use vm_core::code_blocks::{CodeBlock, Dyn, Span};
use vm_core::{CodeBlockTable, StarkField};
use winter_prover::Trace;

pub fn meta() -> Meta {
    Meta {
        level: "exploration",
        rule: "each evaluation = one successful execution whose decoder columns were replayed against an independent MAST walk driven by the branch / loop / dyn decisions read from the trace: control operations at block boundaries, span operations decoded from the group values (7-bit opcodes LSB first, immediates in following groups), NOOPs only after a group-final operation with immediate and as padding to 1/2/4/8 groups, in_span / group_count bookkeeping, program hash in the final END row, and agreement with the operations reported by execute_iter; distinct = distinct (block kinds present, max nesting depth, #batches class, loop iteration classes)".into(),
        assumptions: vec!["the MAST (CodeBlock tree and code block table of the assembled Program) is the specification of what must be executed".into()],
    }
}

struct Walker<'a> {
    tv: &'a TV<'a>,
    table: &'a CodeBlockTable,
    row: usize,
    depth: usize,
    max_depth: usize,
    kinds: std::collections::BTreeSet<&'static str>,
    batches_max: usize,
    loop_iters: std::collections::BTreeSet<usize>,
    noops_alignment: u64,
}

type Mis = (String, String, usize); // signature, description, row

impl<'a> Walker<'a> {
    fn expect(&mut self, name: &str, ctx: &str) -> Result<(), Mis> {
        if self.row >= self.tv.cycles {
            return Err((format!("stream-ends-early/{ctx}"), format!("trace ends at row {} while the program prescribes {name}", self.row), self.row));
        }
        let got = op_name(self.tv.op(self.row));
        if got != name {
            return Err((format!("wrong-op/{ctx}/expected-{name}"), format!("row {}: program prescribes {name}, trace has {got}", self.row), self.row));
        }
        self.row += 1;
        Ok(())
    }

    fn block(&mut self, b: &CodeBlock) -> Result<(), Mis> {
        self.depth += 1;
        self.max_depth = self.max_depth.max(self.depth);
        let r = self.block_inner(b);
        self.depth -= 1;
        r
    }

    fn block_inner(&mut self, b: &CodeBlock) -> Result<(), Mis> {
        match b {
            CodeBlock::Join(j) => {
                self.kinds.insert("join");
                self.expect("JOIN", "join")?;
                self.block(j.first())?;
                self.block(j.second())?;
                self.end(b, "join")
            }
            CodeBlock::Split(s) => {
                self.kinds.insert("split");
                let cond = self.tv.get(STACK, self.row);
                self.expect("SPLIT", "split")?;
                match cond {
                    1 => self.block(s.on_true())?,
                    0 => self.block(s.on_false())?,
                    _ => return Err(("split/non-binary-condition-executed".into(), format!("SPLIT at row {} executed with condition {cond}", self.row - 1), self.row - 1)),
                }
                self.end(b, "split")
            }
            CodeBlock::Loop(l) => {
                self.kinds.insert("loop");
                let cond = self.tv.get(STACK, self.row);
                self.expect("LOOP", "loop")?;
                let mut iters = 0;
                match cond {
                    1 => {
                        self.block(l.body())?;
                        iters = 1;
                        loop {
                            let c = self.tv.get(STACK, self.row);
                            if c == 1 {
                                self.expect("REPEAT", "loop")?;
                                self.block(l.body())?;
                                iters += 1;
                            } else if c == 0 {
                                break;
                            } else {
                                return Err(("loop/non-binary-condition-after-iteration".into(), format!("row {}: loop condition {c} after an iteration", self.row), self.row));
                            }
                        }
                    }
                    0 => {}
                    _ => return Err(("loop/non-binary-condition-executed".into(), format!("LOOP executed with condition {cond}"), self.row - 1)),
                }
                self.loop_iters.insert(iters.min(3));
                self.end(b, "loop")
            }
            CodeBlock::Call(c) => {
                let name = if c.is_syscall() { "SYSCALL" } else { "CALL" };
                self.kinds.insert(if c.is_syscall() { "syscall" } else { "call" });
                self.expect(name, "call")?;
                if c.fn_hash() == Dyn::dyn_hash() {
                    self.kinds.insert("dyncall");
                    self.dyn_block()?;
                } else {
                    let body = self.table.get(c.fn_hash()).ok_or_else(|| ("call/target-missing".to_string(), "call target not in the code block table".to_string(), self.row))?;
                    self.block(body)?;
                }
                self.end(b, "call")
            }
            CodeBlock::Dyn(_) => self.dyn_block(),
            CodeBlock::Span(s) => self.span(s, b),
            CodeBlock::Proxy(_) => Err(("proxy-executed".into(), "a proxy block cannot be executed".into(), self.row)),
        }
    }

    fn dyn_block(&mut self) -> Result<(), Mis> {
        self.kinds.insert("dyn");
        // the target is the word on top of the stack: word[i] = s(3-i)
        let r = self.row;
        let w = [self.tv.get(STACK + 3, r), self.tv.get(STACK + 2, r), self.tv.get(STACK + 1, r), self.tv.get(STACK, r)];
        self.expect("DYN", "dyn")?;
        let digest: processor::Digest = [vm_core::Felt::new(w[0]), vm_core::Felt::new(w[1]), vm_core::Felt::new(w[2]), vm_core::Felt::new(w[3])].into();
        let body = self.table.get(digest).ok_or_else(|| ("dyn/target-missing".to_string(), "dyn target not in the code block table".to_string(), r))?;
        self.block(body)?;
        self.expect("END", "dyn")
    }

    fn end(&mut self, _b: &CodeBlock, ctx: &str) -> Result<(), Mis> {
        self.expect("END", ctx)
    }

    fn span(&mut self, s: &Span, b: &CodeBlock) -> Result<(), Mis> {
        self.kinds.insert("span");
        let batches = s.op_batches();
        self.batches_max = self.batches_max.max(batches.len());
        for (bi, batch) in batches.iter().enumerate() {
            let start_row = self.row;
            self.expect(if bi == 0 { "SPAN" } else { "RESPAN" }, "span")?;
            // in_span is 0 on the SPAN / RESPAN row and 1 on every operation row of the batch
            if self.tv.get(IN_SPAN, start_row) != 0 {
                return Err(("span/in-span-flag-on-control-row".into(), format!("row {start_row}: in_span = 1 on a SPAN/RESPAN row"), start_row));
            }
            // decode the groups of this batch (the hash pre-image)
            let groups: Vec<u64> = batch.groups().iter().map(|g| g.as_int()).collect();
            let n_groups = batch.num_groups();
            let padded = n_groups.next_power_of_two();
            let mut is_imm = vec![false; 8];
            let mut next_free = 1usize;
            let mut g = 0usize;
            while g < padded {
                if is_imm[g] {
                    g += 1;
                    continue;
                }
                let v = if g < 8 { groups[g] } else { 0 };
                if g >= next_free {
                    next_free = g + 1;
                }
                // number of operations the span placed in this group (NOOPs included); padded
                // groups beyond num_groups hold none. Only used for NOOP accounting: the opcodes
                // themselves are decoded from the group VALUE.
                let count = if g < n_groups { batch.op_counts()[g] } else { 0 };
                if count > 9 {
                    return Err(("span/group-with-more-than-9-ops".into(), format!("batch {bi} group {g} holds {count} ops"), self.row));
                }
                if count < 9 && (v >> (7 * count as u32)) != 0 {
                    return Err(("span/group-value-has-more-ops-than-counted".into(), format!("batch {bi} group {g}: value {v} encodes more than {count} operations"), self.row));
                }
                if count == 0 {
                    // an empty (padding) group is executed as exactly one NOOP
                    self.expect("NOOP", "span-padding-group")?;
                    self.noops_alignment += 1;
                    g += 1;
                    continue;
                }
                let mut last_had_imm = false;
                for k in 0..count {
                    let opc = ((v >> (7 * k as u32)) & 0x7f) as u8;
                    let name = op_name(opc);
                    self.expect(&name, "span")?;
                    if self.tv.get(IN_SPAN, self.row - 1) != 1 {
                        return Err(("span/in-span-flag-off-on-op-row".into(), format!("row {}: in_span = 0 on an operation row", self.row - 1), self.row - 1));
                    }
                    last_had_imm = false;
                    if name == "PUSH" {
                        // the immediate sits in the next free group of the batch and is what the
                        // operation pushes
                        if next_free >= 8 {
                            return Err(("span/no-group-left-for-immediate".into(), format!("batch {bi}: PUSH without a free group"), self.row - 1));
                        }
                        let imm = groups[next_free];
                        is_imm[next_free] = true;
                        next_free += 1;
                        let pushed = self.tv.get(STACK, self.row);
                        if pushed != imm {
                            return Err(("span/push-immediate-differs-from-group-value".into(), format!("row {}: PUSH pushed {pushed}, the span's group holds {imm}", self.row - 1), self.row - 1));
                        }
                        last_had_imm = k == count - 1;
                        if k == 8 {
                            return Err(("span/immediate-op-last-in-group".into(), format!("batch {bi} group {g}: an operation with immediate is the 9th of its group"), self.row - 1));
                        }
                    }
                }
                if last_had_imm {
                    // an operation carrying an immediate cannot end a group: one NOOP follows
                    self.expect("NOOP", "span-noop-after-group-final-immediate")?;
                    self.noops_alignment += 1;
                }
                g += 1;
            }
            let _ = start_row;
        }
        // group counter must be zero at the END of the span
        let end_row = self.row;
        self.expect("END", "span")?;
        if self.tv.get(GROUP_COUNT, end_row) != 0 {
            return Err(("span/group-count-not-zero-at-end".into(), format!("row {end_row}: group_count = {} at the END of a span", self.tv.get(GROUP_COUNT, end_row)), end_row));
        }
        let _ = b;
        Ok(())
    }
}

pub fn check_trace(case: &Case, prog: &Program, trace: &ExecutionTrace, rep: &mut Report) {
    let tv = TV::new(trace);
    let mut w = Walker {
        tv: &tv,
        table: prog.cb_table(),
        row: 0,
        depth: 0,
        max_depth: 0,
        kinds: Default::default(),
        batches_max: 0,
        loop_iters: Default::default(),
        noops_alignment: 0,
    };
    let wit = |row: usize| json!({"kind": "case", "case": case.to_json(), "row": row});
    match w.block(prog.root()) {
        Err((sig, what, row)) => rep.violation(sig, what, wit(row)),
        Ok(()) => {
            if w.row != tv.cycles {
                rep.violation("extra-operations-after-program-end", format!("the program ends at row {} but {} cycles were executed", w.row, tv.cycles), wit(w.row));
            }
        }
    }
    // padding rows: HALT until the end
    for r in tv.cycles..tv.len - 1 {
        if tv.op(r) != OP_HALT {
            rep.violation("padding-row-not-halt", format!("row {r} after the end of the program is {}", op_name(tv.op(r))), wit(r));
            break;
        }
    }
    // final END row carries the program hash in h0..h3
    if tv.cycles > 0 {
        let r = tv.cycles - 1;
        let h = tv.hasher(r);
        let ph: [vm_core::Felt; 4] = prog.hash().into();
        if op_name(tv.op(r)) != "END" || (0..4).any(|i| h[i] != ph[i].as_int()) {
            rep.violation("final-row-program-hash", format!("row {r}: the last executed row is {} with h0..h3 = {:?}, program hash = {:?}", op_name(tv.op(r)), &h[..4], ph.iter().map(|x| x.as_int()).collect::<Vec<_>>()), wit(r));
        }
    }
    let kinds: Vec<&str> = w.kinds.iter().cloned().collect();
    for k in &kinds {
        rep.count("block_kinds", k);
    }
    rep.count("max_nesting_depth", &w.max_depth.min(8).to_string());
    rep.count("batches_class", match w.batches_max {
        0 | 1 => "1",
        2 => "2",
        3..=5 => "3-5",
        _ => ">5",
    });
    for i in &w.loop_iters {
        rep.count("loop_iterations", &format!("{}{}", i, if *i == 3 { "+" } else { "" }));
    }
    rep.count_n("alignment_noops", "seen", w.noops_alignment);
    rep.eval(&format!("{}|{}|{}|{:?}", kinds.join(","), w.max_depth, w.batches_max.min(6), w.loop_iters));
}

fn iter_ops(case: &Case, prog: &Program, trace: &ExecutionTrace, rep: &mut Report) {
    let tv = TV::new(trace);
    let it = match catch(|| processor::execute_iter(prog, case.stack_inputs(), case.host())) {
        Ok(it) => it,
        Err(_) => return,
    };
    for st in it {
        let st = match st {
            Ok(s) => s,
            Err(_) => break,
        };
        if st.clk == 0 {
            continue;
        }
        let r = st.clk as usize - 1;
        if r >= tv.cycles {
            break;
        }
        if let Some(op) = st.op {
            if op.op_code() != tv.op(r) {
                rep.violation("iterator-op-differs-from-trace", format!("clk {}: iterator reports {op}, trace row {r} has {}", st.clk, op_name(tv.op(r))), json!({"kind": "case", "case": case.to_json(), "row": r}));
                break;
            }
        }
    }
    rep.count("iterator_ops", "compared");
}

pub fn run_case(case: &Case, rep: &mut Report, with_iter: bool) {
    let prog = match case.assemble() {
        AsmOutcome::Ok(p) => p,
        _ => {
            rep.count("outcome", "asm-fail");
            return;
        }
    };
    // generated loop bodies may clobber their counter: bound the run
    let opts = processor::ExecutionOptions::new(Some(1 << 17), 64, false).unwrap();
    let trace = match case.execute_with(&prog, opts) {
        ExecOutcome::Ok(t) => t,
        _ => {
            rep.count("outcome", "exec-fail");
            return;
        }
    };
    rep.count("outcome", "ok");
    check_trace(case, &prog, &trace, rep);
    if with_iter {
        iter_ops(case, &prog, &trace, rep);
    }
    if rep.samples.len() < 3 {
        rep.sample(json!({"src": crate::report::truncate(&case.src, 200), "cycles": trace.trace_len_summary().main_trace_len(), "trace_len": trace.length()}));
    }
}

/// spans with chosen push / non-push patterns embedded in flow shapes
fn span_case(rng: &mut Rng8) -> Case {
    let n = match rng.gen_range(0..4) {
        0 => rng.gen_range(1..12),
        1 => rng.gen_range(60..90),
        2 => rng.gen_range(100..400),
        _ => rng.gen_range(8..80),
    };
    let p_push = [0.05, 0.3, 0.6, 0.95][rng.gen_range(0..4)];
    let mut body = String::new();
    for _ in 0..n {
        if rng.gen_bool(p_push) {
            body.push_str(&format!("push.{} ", rng.gen::<u64>() % P));
        } else {
            body.push_str(["add ", "swap ", "drop ", "dup.1 ", "neg ", "mul ", "movup.3 ", "padw dropw "][rng.gen_range(0..8)]);
        }
    }
    let shape = rng.gen_range(0..5);
    let iters = rng.gen_range(0..4);
    let src = match shape {
        0 => format!("begin {body} end"),
        1 => format!("begin push.{} if.true {body} else push.1 drop end {body} end", rng.gen_range(0..2)),
        2 => format!("begin push.{iters} dup.0 neq.0 while.true movdn.15 {body} movup.15 sub.1 dup.0 neq.0 end drop end"),
        3 => format!("proc.f {body} end begin exec.f repeat.2 {body} end call.f end"),
        _ => format!("proc.f {body} end begin procref.f dynexec dropw push.1 if.true push.0 if.true push.3 else {body} end end end"),
    };
    let mut c = Case::new(src);
    c.stack = (0..16).map(|_| rng.gen::<u64>() % P).collect();
    c
}

pub fn run(cfg: &Cfg) -> Report {
    let shards = 64;
    let per = cfg.n(1200, 20000);
    let reports = par_map(shards, |sh| {
        let mut rng = rng_for(cfg.seed, "C13", sh as u64);
        let mut rep = Report::new();
        for i in 0..per {
            let case = if i % 2 == 0 {
                span_case(&mut rng)
            } else {
                let size = rng.gen_range(3..60);
                let gc = GenCfg::random(&mut rng, size);
                gen_case(&mut rng, &gc)
            };
            run_case(&case, &mut rep, i % 4 == 0);
        }
        rep
    });
    let mut rep = merge_all(reports);
    rep.floor(rep.hist_len("block_kinds") >= 7, "all-block-kinds-(join,split,loop,call,syscall,dyn,span)");
    rep.floor(rep.get_count("batches_class", ">5") >= 10, "spans-with-more-than-5-batches");
    rep.floor(rep.hist_len("loop_iterations") >= 4, "loops-with-0,1,2,3+-iterations");
    rep.floor(rep.get_count("alignment_noops", "seen") >= 1000, "alignment-noops-observed");
    rep.floor(rep.get_count("iterator_ops", "compared") >= 100, "iterator-op-streams-compared");
    rep
}

pub fn replay(v: &serde_json::Value, rep: &mut Report) {
    if let Some(case) = v.get("case").and_then(Case::from_json) {
        run_case(&case, rep, true);
    }
}
