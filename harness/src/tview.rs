//! Read-only views over the main trace by column index (layout from docs/src/design and
//! air/src/trace constants): system, decoder, stack, range checker and chiplet rows.

use processor::ExecutionTrace;
use vm_core::{Felt, StarkField};
use winter_prover::{matrix::ColMatrix, Trace};

// system
pub const CLK: usize = 0;
pub const FMP: usize = 1;
pub const CTX: usize = 2;
pub const IN_SYSCALL: usize = 3;
pub const FN_HASH: usize = 4; // ..8
// decoder (offset 8)
pub const DEC: usize = 8;
pub const ADDR: usize = 8;
pub const OP_BITS: usize = 9; // ..16
pub const HASHER: usize = 16; // h0..h7 = 16..24
pub const IN_SPAN: usize = 24;
pub const GROUP_COUNT: usize = 25;
pub const OP_INDEX: usize = 26;
pub const BATCH_FLAGS: usize = 27; // ..30
pub const OP_BIT_EXTRA: usize = 30; // ..32
// stack (offset 32)
pub const STACK: usize = 32; // s0..s15 = 32..48
pub const B0: usize = 48;
pub const B1: usize = 49;
pub const H0: usize = 50;
// range checker
pub const RANGE_M: usize = 51;
pub const RANGE_V: usize = 52;
// chiplets (offset 53, width 17)
pub const CHIP: usize = 53;

pub const OP_END: u8 = 0b0111_0000;
pub const OP_CALL: u8 = 0b0110_1100;
pub const OP_SYSCALL: u8 = 0b0110_1000;
pub const OP_DYN: u8 = 0b0101_1000;
pub const OP_CLK: u8 = 0b0011_1111;
pub const OP_HALT: u8 = 0b0111_1100;
pub const OP_SPAN: u8 = 0b0101_0110;
pub const OP_RESPAN: u8 = 0b0111_1000;
pub const OP_JOIN: u8 = 0b0101_0111;
pub const OP_SPLIT: u8 = 0b0101_0100;
pub const OP_LOOP: u8 = 0b0101_0101;
pub const OP_REPEAT: u8 = 0b0111_0100;
pub const OP_PUSH: u8 = 0b0110_0100;
pub const OP_NOOP: u8 = 0;

pub struct TV<'a> {
    pub m: &'a ColMatrix<Felt>,
    /// number of executed cycles (rows 0..cycles are real operations; row `cycles` is the first HALT)
    pub cycles: usize,
    pub len: usize,
}

impl<'a> TV<'a> {
    pub fn new(trace: &'a ExecutionTrace) -> Self {
        TV { m: trace.main_segment(), cycles: trace.trace_len_summary().main_trace_len(), len: trace.length() }
    }
    pub fn get(&self, col: usize, row: usize) -> u64 {
        self.m.get(col, row).as_int()
    }
    pub fn felt(&self, col: usize, row: usize) -> Felt {
        self.m.get(col, row)
    }
    pub fn op(&self, row: usize) -> u8 {
        let mut op = 0u8;
        for i in 0..7 {
            op |= ((self.get(OP_BITS + i, row) & 1) as u8) << i;
        }
        op
    }
    pub fn stack_top(&self, row: usize) -> [u64; 16] {
        let mut s = [0u64; 16];
        for (i, x) in s.iter_mut().enumerate() {
            *x = self.get(STACK + i, row);
        }
        s
    }
    pub fn hasher(&self, row: usize) -> [u64; 8] {
        let mut s = [0u64; 8];
        for (i, x) in s.iter_mut().enumerate() {
            *x = self.get(HASHER + i, row);
        }
        s
    }
    /// chiplet kind of a row: "hasher" | "bitwise" | "memory" | "kernel" | "padding"
    pub fn chiplet_kind(&self, row: usize) -> &'static str {
        let s0 = self.get(CHIP, row);
        let s1 = self.get(CHIP + 1, row);
        let s2 = self.get(CHIP + 2, row);
        let s3 = self.get(CHIP + 3, row);
        if s0 == 0 {
            "hasher"
        } else if s1 == 0 {
            "bitwise"
        } else if s2 == 0 {
            "memory"
        } else if s3 == 0 {
            "kernel"
        } else {
            "padding"
        }
    }
    pub fn mem_rows(&self) -> Vec<MemRow> {
        let mut out = vec![];
        for r in 0..self.len - 1 {
            if self.chiplet_kind(r) == "memory" {
                let sel0 = self.get(CHIP + 3, r);
                let sel1 = self.get(CHIP + 4, r);
                out.push(MemRow {
                    row: r,
                    is_write: sel0 == 0 && sel1 == 0,
                    sel: (sel0, sel1),
                    ctx: self.get(CHIP + 5, r),
                    addr: self.get(CHIP + 6, r),
                    clk: self.get(CHIP + 7, r),
                    word: [self.get(CHIP + 8, r), self.get(CHIP + 9, r), self.get(CHIP + 10, r), self.get(CHIP + 11, r)],
                    d0: self.get(CHIP + 12, r),
                    d1: self.get(CHIP + 13, r),
                    d_inv: self.get(CHIP + 14, r),
                });
            }
        }
        out
    }
}

#[derive(Clone, Debug)]
pub struct MemRow {
    pub row: usize,
    pub is_write: bool,
    pub sel: (u64, u64),
    pub ctx: u64,
    pub addr: u64,
    pub clk: u64,
    pub word: [u64; 4],
    pub d0: u64,
    pub d1: u64,
    pub d_inv: u64,
}
