//! Prove / verify helpers around the real `miden::prove` and `miden::verify`.

use crate::case::Case;
use crate::util::{catch, PanicInfo};
use miden::{ExecutionProof, ProvingOptions, StackOutputs};
use processor::{Program, ProgramInfo, StackInputs};

pub const OPTION_NAMES: [&str; 4] = ["96-blake3", "128-blake3", "96-rpo", "128-rpo"];

pub fn options(idx: usize) -> ProvingOptions {
    match idx {
        0 => ProvingOptions::with_96_bit_security(false),
        1 => ProvingOptions::with_128_bit_security(false),
        2 => ProvingOptions::with_96_bit_security(true),
        _ => ProvingOptions::with_128_bit_security(true),
    }
}

pub fn min_level(idx: usize) -> u32 {
    if idx % 2 == 0 {
        96
    } else {
        128
    }
}

pub enum ProveOutcome {
    Ok(StackOutputs, ExecutionProof),
    Err(String),
    Panic(PanicInfo),
}

pub fn prove(case: &Case, program: &Program, opt: ProvingOptions) -> ProveOutcome {
    let host = case.host();
    let si = case.stack_inputs();
    match catch(|| miden::prove(program, si, host, opt)) {
        Ok(Ok((o, p))) => ProveOutcome::Ok(o, p),
        Ok(Err(e)) => ProveOutcome::Err(format!("{e:?}")),
        Err(p) => ProveOutcome::Panic(p),
    }
}

pub enum VerifyOutcome {
    Ok(u32),
    Err(String),
    Panic(PanicInfo),
}

impl VerifyOutcome {
    pub fn class(&self) -> String {
        match self {
            VerifyOutcome::Ok(l) => format!("accepted({l})"),
            VerifyOutcome::Err(e) => format!("rejected({})", e.split('(').next().unwrap_or("")),
            VerifyOutcome::Panic(p) => format!("panic({})", p.site()),
        }
    }
}

pub fn verify(
    info: ProgramInfo,
    si: StackInputs,
    so: StackOutputs,
    proof: ExecutionProof,
) -> VerifyOutcome {
    match catch(|| miden::verify(info, si, so, proof)) {
        Ok(Ok(l)) => VerifyOutcome::Ok(l),
        Ok(Err(e)) => VerifyOutcome::Err(format!("{e:?}")),
        Err(p) => VerifyOutcome::Panic(p),
    }
}
