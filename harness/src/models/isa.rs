//! M-isa — reference interpreter of Miden *assembly instructions*, written from the user docs
//! (`docs/src/user_docs/assembly/{field_operations,u32_operations,stack_manipulation,io_operations,
//! code_organization}.md`), not from the assembler / processor.
//!
//! The model works on source text (`const.X=… begin <instructions> end`) and an unbounded stack of
//! canonical field elements (u64 < p, p = 2^64 - 2^32 + 1). The stack depth never drops below 16:
//! zeros are shifted in from below. Per program the model answers three-valued:
//!
//! * `Defined(final stack, top first)` — docs define the transition,
//! * `Fail(kind)` — docs say "Fails if …" (or the parameter is outside the documented valid range,
//!   which must be rejected at assembly time),
//! * `Undefined` — docs say "Undefined if …" or are silent about the form.
//!
//! Conventions taken from the docs: stack diagrams list the top FIRST (`[b, a, ...]`: b on top);
//! a word `A` occupies four consecutive positions; results listed first end up on top.
//!
//! Documented quirks that are reproduced rather than corrected: `drop` at depth 16 keeps depth 16;
//! `swapdw` `[D,C,B,A] -> [B,A,D,C]`; `eqw` keeps both words; short hex big-endian, long hex
//! little-endian. `ext2mul` is the product in the quadratic extension field (the printed formula
//! `c1 = (a0+a1)(b0+b1)` is a documentation typo lacking `- a0*b0`; kept as `ext2_mul_as_printed`).
//! The user docs never define the modulus `q` of the extension field used by `ext2inv`/`ext2div`;
//! the model uses F_p[x]/(x^2 - x + 2) (the extension the `c0` formula of `ext2mul` belongs to).

use std::collections::HashMap;

pub const P: u64 = 0xFFFF_FFFF_0000_0001;
const P128: u128 = P as u128;
const M32: u64 = 0xFFFF_FFFF;

// FIELD ARITHMETIC (u128 intermediates)
// ================================================================================================

pub fn fadd(a: u64, b: u64) -> u64 {
    ((a as u128 + b as u128) % P128) as u64
}
pub fn fsub(a: u64, b: u64) -> u64 {
    ((a as u128 + P128 - b as u128) % P128) as u64
}
pub fn fmul(a: u64, b: u64) -> u64 {
    ((a as u128 * b as u128) % P128) as u64
}
pub fn fneg(a: u64) -> u64 {
    if a == 0 {
        0
    } else {
        P - a
    }
}
pub fn fpow(a: u64, mut e: u64) -> u64 {
    let mut base = a;
    let mut acc = 1u64;
    while e > 0 {
        if e & 1 == 1 {
            acc = fmul(acc, base);
        }
        base = fmul(base, base);
        e >>= 1;
    }
    acc
}
/// a^-1 (a != 0) by Fermat
pub fn finv(a: u64) -> u64 {
    fpow(a, P - 2)
}

/// (a0 + a1 x)^-1 in F_p[x]/(x^2 - x + 2): conj(a) = (a0 + a1) - a1 x, N(a) = a0^2 + a0 a1 + 2 a1^2
pub fn ext2_inv(a0: u64, a1: u64) -> (u64, u64) {
    let n = fadd(fadd(fmul(a0, a0), fmul(a0, a1)), fmul(2, fmul(a1, a1)));
    let ni = finv(n);
    (fmul(fadd(a0, a1), ni), fmul(fneg(a1), ni))
}
/// the `ext2mul` formula exactly as printed in field_operations.md (c1 lacks `- a0*b0`): (c0, c1)
pub fn ext2_mul_as_printed(a0: u64, a1: u64, b0: u64, b1: u64) -> (u64, u64) {
    (fsub(fmul(a0, b0), fmul(2, fmul(a1, b1))), fmul(fadd(a0, a1), fadd(b0, b1)))
}
/// true product in F_p[x]/(x^2 - x + 2)
pub fn ext2_mul_true(a0: u64, a1: u64, b0: u64, b1: u64) -> (u64, u64) {
    let c0 = fsub(fmul(a0, b0), fmul(2, fmul(a1, b1)));
    let c1 = fsub(fmul(fadd(a0, a1), fadd(b0, b1)), fmul(a0, b0));
    (c0, c1)
}

// INSTRUCTION SET
// ================================================================================================

macro_rules! def_ops {
    ($( $v:ident $n:literal ),* $(,)?) => {
        #[derive(Clone, Copy, Debug, PartialEq, Eq, Hash, PartialOrd, Ord)]
        pub enum Op { $($v),* }
        impl Op {
            pub const ALL: &'static [Op] = &[$(Op::$v),*];
            pub fn name(self) -> &'static str { match self { $(Op::$v => $n),* } }
            pub fn from_name(s: &str) -> Option<Op> { match s { $($n => Some(Op::$v),)* _ => None } }
        }
    };
}

def_ops! {
    // field: assertions
    Assert "assert", Assertz "assertz", AssertEq "assert_eq", AssertEqw "assert_eqw",
    // field: arithmetic / boolean
    Add "add", Sub "sub", Mul "mul", Div "div", Neg "neg", Inv "inv", Pow2 "pow2", Exp "exp",
    Ilog2 "ilog2", Not "not", And "and", Or "or", Xor "xor",
    // field: comparison
    Eq "eq", Neq "neq", Lt "lt", Lte "lte", Gt "gt", Gte "gte", IsOdd "is_odd", Eqw "eqw",
    // extension field
    Ext2Add "ext2add", Ext2Sub "ext2sub", Ext2Mul "ext2mul", Ext2Neg "ext2neg", Ext2Inv "ext2inv",
    Ext2Div "ext2div",
    // u32 conversions and tests
    U32Test "u32test", U32Testw "u32testw", U32Assert "u32assert", U32Assert2 "u32assert2",
    U32Assertw "u32assertw", U32Cast "u32cast", U32Split "u32split",
    // u32 arithmetic
    U32OverflowingAdd "u32overflowing_add", U32WrappingAdd "u32wrapping_add",
    U32OverflowingAdd3 "u32overflowing_add3", U32WrappingAdd3 "u32wrapping_add3",
    U32OverflowingSub "u32overflowing_sub", U32WrappingSub "u32wrapping_sub",
    U32OverflowingMul "u32overflowing_mul", U32WrappingMul "u32wrapping_mul",
    U32OverflowingMadd "u32overflowing_madd", U32WrappingMadd "u32wrapping_madd",
    U32Div "u32div", U32Mod "u32mod", U32Divmod "u32divmod",
    // u32 bitwise
    U32And "u32and", U32Or "u32or", U32Xor "u32xor", U32Not "u32not",
    U32Shl "u32shl", U32Shr "u32shr", U32Rotl "u32rotl", U32Rotr "u32rotr",
    U32Popcnt "u32popcnt", U32Clz "u32clz", U32Ctz "u32ctz", U32Clo "u32clo", U32Cto "u32cto",
    // u32 comparison
    U32Lt "u32lt", U32Lte "u32lte", U32Gt "u32gt", U32Gte "u32gte", U32Min "u32min", U32Max "u32max",
    // stack manipulation
    Drop "drop", Dropw "dropw", Padw "padw", Dup "dup", Dupw "dupw", Swap "swap", Swapw "swapw",
    Swapdw "swapdw", Movup "movup", Movupw "movupw", Movdn "movdn", Movdnw "movdnw",
    Cswap "cswap", Cswapw "cswapw", Cdrop "cdrop", Cdropw "cdropw",
    // constant / environment inputs
    Push "push", Sdepth "sdepth",
}

/// Which parameter syntax the docs define for an instruction.
#[derive(Clone, Copy, Debug, PartialEq, Eq)]
pub enum ParamKind {
    None,
    /// optional `.b`, b a field element
    Felt,
    /// optional `.uN` or `.b`
    Exp,
    /// optional `.b`, b a u32 value
    U32,
    /// optional `.b`, b in 0..=31
    Shift,
    /// `.n` with lo <= n <= hi; `default` is the meaning of the bare form (if documented)
    Index { lo: u64, hi: u64, default: Option<u64> },
    /// optional `.err=CODE`
    Err,
    /// 1..=16 values
    Push,
}

impl Op {
    pub fn param_kind(self) -> ParamKind {
        use Op::*;
        match self {
            Assert | Assertz | AssertEq | AssertEqw | U32Assert | U32Assert2 | U32Assertw => ParamKind::Err,
            Add | Sub | Mul | Div | Eq | Neq => ParamKind::Felt,
            Exp => ParamKind::Exp,
            U32OverflowingAdd | U32WrappingAdd | U32OverflowingSub | U32WrappingSub | U32OverflowingMul
            | U32WrappingMul | U32Div | U32Mod | U32Divmod => ParamKind::U32,
            U32Shl | U32Shr | U32Rotl | U32Rotr => ParamKind::Shift,
            Dup => ParamKind::Index { lo: 0, hi: 15, default: Some(0) },
            Dupw => ParamKind::Index { lo: 0, hi: 3, default: Some(0) },
            Swap => ParamKind::Index { lo: 1, hi: 15, default: Some(1) },
            Swapw => ParamKind::Index { lo: 1, hi: 3, default: Some(1) },
            Movup | Movdn => ParamKind::Index { lo: 2, hi: 15, default: None },
            Movupw | Movdnw => ParamKind::Index { lo: 2, hi: 3, default: None },
            Push => ParamKind::Push,
            _ => ParamKind::None,
        }
    }
}

#[derive(Clone, Debug, PartialEq, Eq)]
pub enum Imm {
    None,
    /// numeric immediate (operand value, index, shift)
    Val(u64),
    /// `exp.uN`
    Bits(u64),
    /// `.err=CODE`
    Err(u32),
    /// `push` values, in textual order (last one ends up on top)
    Vals(Vec<u64>),
}

#[derive(Clone, Debug, PartialEq, Eq)]
pub struct Ins {
    pub op: Op,
    pub imm: Imm,
}

/// Instruction kind of a token for coverage / signatures: name + parameter shape (not its value),
/// e.g. `add`, `add.b`, `exp.uN`, `dup`, `dup.n`, `assert.err`, `push`.
pub fn token_kind(tok: &str) -> String {
    let (name, rest) = match tok.split_once('.') {
        Some((n, r)) => (n, Some(r)),
        None => (tok, None),
    };
    let op = Op::from_name(name);
    match (rest, op) {
        (None, _) => name.to_string(),
        (_, Some(Op::Push)) => "push".to_string(),
        (Some(r), _) if r.starts_with("err=") => format!("{name}.err"),
        (Some(r), Some(Op::Exp)) if r.starts_with('u') => "exp.uN".to_string(),
        (_, Some(o)) if matches!(o.param_kind(), ParamKind::Index { .. }) => format!("{name}.n"),
        _ => format!("{name}.b"),
    }
}

// OUTCOMES
// ================================================================================================

#[derive(Clone, Debug, PartialEq, Eq)]
pub enum FailKind {
    /// "Fails if b = 0"; `imm` = the zero divisor is an immediate (may be rejected at assembly time)
    DivideByZero { imm: bool },
    /// "Fails if a > 1" and friends
    NotBinary,
    /// "Fails if a >= 2^32"; `code` is the documented error code where the docs define one
    NotU32 { code: Option<u32> },
    /// failed `assert*` with its error code (0 if omitted)
    Assertion { code: u32 },
    /// `ilog2` of 0
    LogArgumentZero,
    /// `pow2` with a > 63 (docs: "Fails", error family not specified)
    Pow2Range,
    /// parameter outside the documented valid range / not a valid field element / malformed
    /// declaration: must not assemble
    Asm(&'static str),
}

impl FailKind {
    pub fn class(&self) -> String {
        match self {
            FailKind::DivideByZero { imm: false } => "DivideByZero".into(),
            FailKind::DivideByZero { imm: true } => "DivideByZero(imm)".into(),
            FailKind::NotBinary => "NotBinary".into(),
            FailKind::NotU32 { code: None } => "NotU32".into(),
            FailKind::NotU32 { code: Some(_) } => "NotU32(code)".into(),
            FailKind::Assertion { .. } => "Assertion".into(),
            FailKind::LogArgumentZero => "LogArgumentZero".into(),
            FailKind::Pow2Range => "Pow2Range".into(),
            FailKind::Asm(w) => format!("Asm({w})"),
        }
    }
}

#[derive(Clone, Debug, PartialEq, Eq)]
pub enum Step {
    Ok,
    Fail(FailKind),
    Undefined(&'static str),
}

#[derive(Clone, Debug, PartialEq, Eq)]
pub enum Verdict {
    /// final stack, top first, len >= 16
    Defined(Vec<u64>),
    /// `at` = index of the instruction (None: a constant declaration)
    Fail { kind: FailKind, at: Option<usize> },
    Undefined { why: &'static str, at: Option<usize> },
}

impl Verdict {
    pub fn class(&self) -> String {
        match self {
            Verdict::Defined(_) => "defined".into(),
            Verdict::Fail { kind, .. } => format!("fail:{}", kind.class()),
            Verdict::Undefined { why, .. } => format!("undefined:{why}"),
        }
    }
}

// STACK
// ================================================================================================

/// Unbounded operand stack, top first; depth never below 16 (zeros shifted in from below).
#[derive(Clone, Debug, PartialEq, Eq)]
pub struct Stack(pub Vec<u64>);

impl Stack {
    pub fn new(top_first: &[u64]) -> Self {
        let mut v: Vec<u64> = top_first.iter().map(|x| x % P).collect();
        while v.len() < 16 {
            v.push(0);
        }
        Stack(v)
    }
    pub fn depth(&self) -> usize {
        self.0.len()
    }
    fn fill(&mut self) {
        while self.0.len() < 16 {
            self.0.push(0);
        }
    }
    /// removes the top element; the depth floor of 16 is re-established at the END of the
    /// instruction (`step`), because the docs give the stack effect per instruction: `add` on a
    /// stack of depth 16 (`[b, a, ...] -> [c, ...]`) leaves depth 16, not 17.
    pub fn pop(&mut self) -> u64 {
        if self.0.is_empty() {
            return 0;
        }
        self.0.remove(0)
    }
    pub fn push(&mut self, x: u64) {
        self.0.insert(0, x);
    }
    pub fn get(&self, i: usize) -> u64 {
        self.0[i]
    }
}

fn is_u32(x: u64) -> bool {
    x <= M32
}

// TEXT LEVEL: numbers, constants, tokens
// ================================================================================================

fn parse_dec(s: &str) -> Option<u128> {
    if s.is_empty() || s.len() > 38 || !s.bytes().all(|b| b.is_ascii_digit()) {
        return None;
    }
    s.parse::<u128>().ok()
}

fn is_hex_lit(s: &str) -> bool {
    s.len() > 2 && s.starts_with("0x") && s[2..].bytes().all(|b| b.is_ascii_hexdigit())
}

fn is_const_name(s: &str) -> bool {
    let mut ch = s.chars();
    match ch.next() {
        Some(c) if c.is_ascii_uppercase() => {}
        _ => return false,
    }
    s.len() <= 100 && s.chars().all(|c| c.is_ascii_uppercase() || c.is_ascii_digit() || c == '_')
}

enum Num {
    Vals(Vec<u64>),
    Fail(&'static str),
    Undefined(&'static str),
}

/// short hex: big-endian value; long hex (64 digits): a word of four little-endian u64.
fn parse_hex(s: &str) -> Num {
    let h = &s[2..];
    if h.len() % 2 == 1 {
        return Num::Undefined("hex-odd-digits");
    }
    if h.len() <= 16 {
        let v = u64::from_str_radix(h, 16).unwrap();
        if v >= P {
            return Num::Fail("not-a-field-element");
        }
        return Num::Vals(vec![v]);
    }
    if h.len() == 64 {
        let mut out = vec![];
        for k in 0..4 {
            let chunk = &h[16 * k..16 * k + 16];
            let mut v: u64 = 0;
            for byte in (0..8).rev() {
                v = (v << 8) | u64::from_str_radix(&chunk[2 * byte..2 * byte + 2], 16).unwrap();
            }
            if v >= P {
                return Num::Fail("not-a-field-element");
            }
            out.push(v);
        }
        return Num::Vals(out);
    }
    Num::Fail("hex-not-a-full-word")
}

/// Constant expressions: `+ - * / //` and parentheses over decimal numbers and earlier constants.
/// `/` is field division, `//` integer division. The docs do not say whether + - * wrap modulo p
/// or are integer operations; `ambiguous` is set whenever the two readings differ.
struct ExprParser<'a> {
    s: &'a [u8],
    i: usize,
    consts: &'a HashMap<String, u64>,
    ambiguous: bool,
    unary: bool,
    err: Option<&'static str>,
}

impl<'a> ExprParser<'a> {
    fn peek(&self) -> Option<u8> {
        self.s.get(self.i).copied()
    }
    fn expr(&mut self) -> u64 {
        let mut v = self.term();
        while self.err.is_none() {
            match self.peek() {
                Some(b'+') => {
                    self.i += 1;
                    let r = self.term();
                    if v as u128 + r as u128 >= P128 {
                        self.ambiguous = true;
                    }
                    v = fadd(v, r);
                }
                Some(b'-') => {
                    self.i += 1;
                    let r = self.term();
                    if r > v {
                        self.ambiguous = true;
                    }
                    v = fsub(v, r);
                }
                _ => break,
            }
        }
        v
    }
    fn term(&mut self) -> u64 {
        let mut v = self.factor();
        while self.err.is_none() {
            match self.peek() {
                Some(b'*') => {
                    self.i += 1;
                    let r = self.factor();
                    if v as u128 * r as u128 >= P128 {
                        self.ambiguous = true;
                    }
                    v = fmul(v, r);
                }
                Some(b'/') => {
                    self.i += 1;
                    let int_div = self.peek() == Some(b'/');
                    if int_div {
                        self.i += 1;
                    }
                    let r = self.factor();
                    if r == 0 {
                        self.ambiguous = true; // docs silent about division by zero in constants
                        continue;
                    }
                    v = if int_div { v / r } else { fmul(v, finv(r)) };
                }
                _ => break,
            }
        }
        v
    }
    fn factor(&mut self) -> u64 {
        match self.peek() {
            Some(b'(') => {
                self.i += 1;
                let v = self.expr();
                if self.peek() == Some(b')') {
                    self.i += 1;
                } else if self.err.is_none() {
                    self.err = Some("const-expr-syntax");
                }
                v
            }
            Some(c) if c.is_ascii_digit() => {
                let st = self.i;
                while self.peek().map(|c| c.is_ascii_digit()).unwrap_or(false) {
                    self.i += 1;
                }
                let txt = std::str::from_utf8(&self.s[st..self.i]).unwrap();
                match parse_dec(txt) {
                    Some(v) if v < P128 => v as u64,
                    _ => {
                        self.err = Some("const-out-of-range");
                        0
                    }
                }
            }
            Some(c) if c.is_ascii_uppercase() => {
                let st = self.i;
                while self.peek().map(|c| c.is_ascii_uppercase() || c.is_ascii_digit() || c == b'_').unwrap_or(false) {
                    self.i += 1;
                }
                let name = std::str::from_utf8(&self.s[st..self.i]).unwrap();
                match self.consts.get(name) {
                    Some(v) => *v,
                    None => {
                        self.err = Some("const-undefined");
                        0
                    }
                }
            }
            Some(b'+') | Some(b'-') => {
                // unary sign: not mentioned in the docs
                self.i += 1;
                self.unary = true;
                self.factor()
            }
            _ => {
                if self.err.is_none() {
                    self.err = Some("const-expr-syntax");
                }
                0
            }
        }
    }
}

enum ConstVal {
    Val(u64),
    Fail(&'static str),
    Undefined(&'static str),
}

fn eval_const(expr: &str, consts: &HashMap<String, u64>) -> ConstVal {
    if is_hex_lit(expr) {
        return match parse_hex(expr) {
            Num::Vals(v) if v.len() == 1 => ConstVal::Val(v[0]),
            Num::Vals(_) => ConstVal::Fail("const-out-of-range"),
            Num::Fail(w) => ConstVal::Fail(w),
            Num::Undefined(w) => ConstVal::Undefined(w),
        };
    }
    if expr.contains("0x") {
        // "if it uses only decimal numbers"
        return ConstVal::Undefined("const-expr-with-hex");
    }
    let mut p = ExprParser { s: expr.as_bytes(), i: 0, consts, ambiguous: false, unary: false, err: None };
    let v = p.expr();
    if p.err.is_none() && p.i != p.s.len() {
        p.err = Some("const-expr-syntax");
    }
    if let Some(e) = p.err {
        return ConstVal::Fail(e);
    }
    if p.unary {
        return ConstVal::Undefined("const-expr-unary-sign");
    }
    if p.ambiguous {
        return ConstVal::Undefined("const-expr-wraps");
    }
    ConstVal::Val(v)
}

/// Result of reading one instruction token.
#[derive(Clone, Debug, PartialEq, Eq)]
pub enum Parsed {
    Ins(Ins),
    Fail(&'static str),
    Undefined(&'static str),
}

/// Textual form of the parameters of a token (coverage key "immediate form").
pub fn param_form(tok: &str) -> String {
    let mut it = tok.split('.');
    let _ = it.next();
    let params: Vec<&str> = it.collect();
    if params.is_empty() {
        return "bare".into();
    }
    let one = |p: &str| -> &'static str {
        let p = p.strip_prefix("err=").unwrap_or(p);
        if is_hex_lit(p) {
            if p.len() == 66 {
                "hexword"
            } else {
                "hex"
            }
        } else if parse_dec(p).is_some() {
            "dec"
        } else if is_const_name(p) {
            "const"
        } else if p.starts_with('u') && parse_dec(&p[1..]).is_some() {
            "uN"
        } else {
            "other"
        }
    };
    let mut forms: Vec<&'static str> = params.iter().map(|p| one(p)).collect();
    let n = forms.len();
    forms.sort();
    forms.dedup();
    let f = if forms.len() == 1 { forms[0].to_string() } else { "mixed".to_string() };
    if n > 1 {
        format!("{f}*")
    } else {
        f
    }
}

fn parse_token(tok: &str, consts: &HashMap<String, u64>) -> Parsed {
    let mut it = tok.split('.');
    let name = it.next().unwrap_or("");
    let params: Vec<&str> = it.collect();
    let op = match Op::from_name(name) {
        Some(op) => op,
        None => return Parsed::Undefined("unknown-instruction"),
    };
    let pk = op.param_kind();
    if params.is_empty() {
        return match pk {
            ParamKind::Index { default: None, .. } => Parsed::Undefined("bare-form-not-documented"),
            ParamKind::Index { default: Some(d), .. } => Parsed::Ins(Ins { op, imm: Imm::Val(d) }),
            ParamKind::Push => Parsed::Fail("push-without-value"),
            _ => Parsed::Ins(Ins { op, imm: Imm::None }),
        };
    }
    if params.iter().any(|p| p.is_empty()) {
        return Parsed::Undefined("empty-parameter");
    }
    match pk {
        ParamKind::None => Parsed::Undefined("parameter-not-documented"),
        ParamKind::Push => {
            if params.len() > 16 {
                return Parsed::Fail("push-more-than-16");
            }
            let mut vals = vec![];
            let mut undefined = None;
            for p in &params {
                if let Some(v) = parse_dec(p) {
                    if v >= P128 {
                        return Parsed::Fail("not-a-field-element");
                    }
                    vals.push(v as u64);
                } else if is_hex_lit(p) {
                    match parse_hex(p) {
                        Num::Vals(v) => {
                            if v.len() == 4 && params.len() > 1 {
                                // docs describe the long form only as the sole parameter
                                undefined = Some("hexword-mixed-with-values");
                            }
                            vals.extend(v)
                        }
                        Num::Fail(w) => return Parsed::Fail(w),
                        Num::Undefined(w) => undefined = Some(w),
                    }
                } else if is_const_name(p) {
                    match consts.get(*p) {
                        Some(v) => vals.push(*v),
                        None => return Parsed::Fail("const-undefined"),
                    }
                } else {
                    return Parsed::Fail("push-malformed-value");
                }
            }
            if let Some(w) = undefined {
                return Parsed::Undefined(w);
            }
            Parsed::Ins(Ins { op, imm: Imm::Vals(vals) })
        }
        _ if params.len() > 1 => Parsed::Undefined("extra-parameters"),
        ParamKind::Err => {
            let p = params[0];
            let code = match p.strip_prefix("err=") {
                Some(c) => c,
                None => return Parsed::Undefined("parameter-not-documented"),
            };
            let v: u128 = if let Some(v) = parse_dec(code) {
                v
            } else if is_const_name(code) {
                match consts.get(code) {
                    Some(v) => *v as u128,
                    None => return Parsed::Fail("const-undefined"),
                }
            } else if is_hex_lit(code) {
                return Parsed::Undefined("err-code-hex-not-documented");
            } else {
                return Parsed::Fail("err-code-malformed");
            };
            if v > u32::MAX as u128 {
                return Parsed::Fail("err-code-not-32-bit");
            }
            Parsed::Ins(Ins { op, imm: Imm::Err(v as u32) })
        }
        ParamKind::Index { lo, hi, .. } => {
            let p = params[0];
            match parse_dec(p) {
                Some(v) if v >= lo as u128 && v <= hi as u128 => Parsed::Ins(Ins { op, imm: Imm::Val(v as u64) }),
                Some(_) => Parsed::Fail("index-out-of-range"),
                None if is_hex_lit(p) || is_const_name(p) => Parsed::Undefined("imm-form-not-documented"),
                None => Parsed::Fail("index-malformed"),
            }
        }
        ParamKind::Exp => {
            let p = params[0];
            if let Some(bits) = p.strip_prefix('u') {
                return match parse_dec(bits) {
                    // "Fails if xx is outside [0, 63)" but also "exp is equivalent to exp.u64":
                    // 63 and 64 are accepted by the second sentence, anything above is invalid.
                    Some(n) if n <= 64 => Parsed::Ins(Ins { op, imm: Imm::Bits(n as u64) }),
                    Some(_) => Parsed::Fail("exp-bits-out-of-range"),
                    None => Parsed::Undefined("imm-form-not-documented"),
                };
            }
            match parse_dec(p) {
                Some(v) if v < P128 => Parsed::Ins(Ins { op, imm: Imm::Val(v as u64) }),
                Some(_) => Parsed::Undefined("imm-not-a-field-element"),
                None => Parsed::Undefined("imm-form-not-documented"),
            }
        }
        ParamKind::Felt => match parse_dec(params[0]) {
            Some(v) if v < P128 => Parsed::Ins(Ins { op, imm: Imm::Val(v as u64) }),
            Some(_) => Parsed::Undefined("imm-not-a-field-element"),
            None => Parsed::Undefined("imm-form-not-documented"),
        },
        ParamKind::U32 => match parse_dec(params[0]) {
            // "Undefined if max(a, b) >= 2^32"
            Some(v) if v <= M32 as u128 => Parsed::Ins(Ins { op, imm: Imm::Val(v as u64) }),
            Some(_) => Parsed::Undefined("imm-not-u32"),
            None => Parsed::Undefined("imm-form-not-documented"),
        },
        ParamKind::Shift => match parse_dec(params[0]) {
            // "Undefined if ... b > 31"
            Some(v) if v <= 31 => Parsed::Ins(Ins { op, imm: Imm::Val(v as u64) }),
            Some(_) => Parsed::Undefined("shift-imm-above-31"),
            None => Parsed::Undefined("imm-form-not-documented"),
        },
    }
}

// PROGRAM
// ================================================================================================

/// A program split into constant declarations and instruction tokens (straight-line body only).
#[derive(Clone, Debug, Default)]
pub struct ProgramText {
    pub consts: Vec<String>,
    pub tokens: Vec<String>,
}

impl ProgramText {
    /// `const.A=… const.B=… begin t1 t2 … end`
    pub fn from_source(src: &str) -> Option<ProgramText> {
        let toks: Vec<&str> = src.split_whitespace().collect();
        let mut i = 0;
        let mut consts = vec![];
        while i < toks.len() && toks[i].starts_with("const.") {
            consts.push(toks[i].to_string());
            i += 1;
        }
        if toks.get(i) != Some(&"begin") || toks.last() != Some(&"end") || toks.len() < i + 2 {
            return None;
        }
        let tokens = toks[i + 1..toks.len() - 1].iter().map(|s| s.to_string()).collect();
        Some(ProgramText { consts, tokens })
    }
    pub fn to_source(&self) -> String {
        let mut s = String::new();
        for c in &self.consts {
            s.push_str(c);
            s.push('\n');
        }
        s.push_str("begin");
        for t in &self.tokens {
            s.push(' ');
            s.push_str(t);
        }
        s.push_str(" end");
        s
    }
    pub fn prefix(&self, n: usize) -> ProgramText {
        ProgramText { consts: self.consts.clone(), tokens: self.tokens[..n.min(self.tokens.len())].to_vec() }
    }
}

/// Incremental machine: constants + stack. Used both for whole programs and by the generator.
#[derive(Clone, Debug)]
pub struct Machine {
    pub consts: HashMap<String, u64>,
    pub stack: Stack,
}

pub enum DeclResult {
    Ok,
    Fail(&'static str),
    Undefined(&'static str),
}

impl Machine {
    pub fn new(stack_top_first: &[u64]) -> Self {
        Machine { consts: HashMap::new(), stack: Stack::new(stack_top_first) }
    }

    /// `const.NAME=expr`
    pub fn declare(&mut self, decl: &str) -> DeclResult {
        let body = match decl.strip_prefix("const.") {
            Some(b) => b,
            None => return DeclResult::Fail("const-syntax"),
        };
        let (name, expr) = match body.split_once('=') {
            Some(x) => x,
            None => return DeclResult::Fail("const-syntax"),
        };
        if !is_const_name(name) {
            return DeclResult::Fail("const-name");
        }
        if self.consts.contains_key(name) {
            return DeclResult::Undefined("const-redefined");
        }
        match eval_const(expr, &self.consts) {
            ConstVal::Val(v) => {
                self.consts.insert(name.to_string(), v);
                DeclResult::Ok
            }
            ConstVal::Fail(w) => DeclResult::Fail(w),
            ConstVal::Undefined(w) => DeclResult::Undefined(w),
        }
    }

    pub fn parse(&self, tok: &str) -> Parsed {
        parse_token(tok, &self.consts)
    }

    pub fn step(&mut self, ins: &Ins) -> Step {
        step(&mut self.stack, ins)
    }
}

/// Runs a whole program. Assembly-time verdicts (invalid parameters anywhere in the text) take
/// precedence over run-time behaviour, as assembly happens first.
pub fn run_program(prog: &ProgramText, stack_top_first: &[u64]) -> Verdict {
    let mut m = Machine::new(stack_top_first);
    let mut undefined: Option<(&'static str, Option<usize>)> = None;
    for d in &prog.consts {
        match m.declare(d) {
            DeclResult::Ok => {}
            DeclResult::Fail(w) => return Verdict::Fail { kind: FailKind::Asm(w), at: None },
            DeclResult::Undefined(w) => {
                if undefined.is_none() {
                    undefined = Some((w, None));
                }
            }
        }
    }
    let mut inss = vec![];
    for (i, t) in prog.tokens.iter().enumerate() {
        match m.parse(t) {
            Parsed::Ins(ins) => inss.push(ins),
            Parsed::Fail(w) => {
                // a reference to a constant whose declaration was "undefined" cannot be judged
                if w == "const-undefined" && undefined.is_some() {
                    continue;
                }
                return Verdict::Fail { kind: FailKind::Asm(w), at: Some(i) };
            }
            Parsed::Undefined(w) => {
                if undefined.is_none() {
                    undefined = Some((w, Some(i)));
                }
            }
        }
    }
    if let Some((why, at)) = undefined {
        return Verdict::Undefined { why, at };
    }
    for (i, ins) in inss.iter().enumerate() {
        match m.step(ins) {
            Step::Ok => {}
            Step::Fail(kind) => return Verdict::Fail { kind, at: Some(i) },
            Step::Undefined(why) => return Verdict::Undefined { why, at: Some(i) },
        }
    }
    Verdict::Defined(m.stack.0)
}

/// true if the text contains a zero immediate divisor (`div.0`, `u32div.0`, …): the docs say the
/// instruction fails, which an implementation may already report at assembly time.
pub fn has_zero_divisor_imm(prog: &ProgramText) -> bool {
    prog.tokens.iter().any(|t| {
        matches!(t.as_str(), "div.0" | "u32div.0" | "u32mod.0" | "u32divmod.0")
            || (t.split_once('.').map(|(n, p)| {
                matches!(n, "div" | "u32div" | "u32mod" | "u32divmod") && parse_dec(p) == Some(0)
            }) == Some(true))
    })
}

// SEMANTICS
// ================================================================================================

fn imm_val(ins: &Ins) -> Option<u64> {
    match ins.imm {
        Imm::Val(v) => Some(v),
        _ => None,
    }
}

fn err_code(ins: &Ins) -> u32 {
    match ins.imm {
        Imm::Err(c) => c,
        _ => 0, // "If the error code is omitted, the default value of 0 is assumed."
    }
}

/// One instruction on the stack, from the instruction reference tables. The stack effect is the
/// one of the whole instruction: depth' = max(16, depth - inputs + outputs).
pub fn step(st: &mut Stack, ins: &Ins) -> Step {
    let r = step_inner(st, ins);
    st.fill();
    r
}

fn step_inner(st: &mut Stack, ins: &Ins) -> Step {
    use Op::*;
    match ins.op {
        // ---------------------------------------------------------------- assertions
        Assert => {
            // [a, ...] -> [...]; fails if a != 1
            if st.get(0) != 1 {
                return Step::Fail(FailKind::Assertion { code: err_code(ins) });
            }
            st.pop();
        }
        Assertz => {
            if st.get(0) != 0 {
                return Step::Fail(FailKind::Assertion { code: err_code(ins) });
            }
            st.pop();
        }
        AssertEq => {
            // [b, a, ...] -> [...]; fails if a != b
            if st.get(0) != st.get(1) {
                return Step::Fail(FailKind::Assertion { code: err_code(ins) });
            }
            st.pop();
            st.pop();
        }
        AssertEqw => {
            // [B, A, ...] -> [...]; fails if A != B
            for i in 0..4 {
                if st.get(i) != st.get(i + 4) {
                    return Step::Fail(FailKind::Assertion { code: err_code(ins) });
                }
            }
            for _ in 0..8 {
                st.pop();
            }
        }
        // ---------------------------------------------------------------- arithmetic
        Add | Sub | Mul | Div => {
            // [b, a, ...] -> [c, ...]; with an immediate, b is not on the stack
            let is_imm = imm_val(ins).is_some();
            let b = match imm_val(ins) {
                Some(b) => b,
                None => st.pop(),
            };
            let a = st.pop();
            let c = match ins.op {
                Add => fadd(a, b),
                Sub => fsub(a, b),
                Mul => fmul(a, b),
                _ => {
                    if b == 0 {
                        return Step::Fail(FailKind::DivideByZero { imm: is_imm });
                    }
                    fmul(a, finv(b))
                }
            };
            st.push(c);
        }
        Neg => {
            let a = st.pop();
            st.push(fneg(a));
        }
        Inv => {
            let a = st.pop();
            if a == 0 {
                return Step::Fail(FailKind::DivideByZero { imm: false });
            }
            st.push(finv(a));
        }
        Pow2 => {
            // b <- 2^a; fails if a > 63
            let a = st.pop();
            if a > 63 {
                return Step::Fail(FailKind::Pow2Range);
            }
            st.push((1u64 << a) % P);
        }
        Exp => {
            // [b, a, ...] -> [a^b, ...]; exp == exp.u64; exp.b takes b as immediate
            match ins.imm {
                Imm::Val(b) => {
                    let a = st.pop();
                    st.push(fpow(a, b));
                }
                Imm::Bits(n) => {
                    let b = st.pop();
                    let a = st.pop();
                    if n < 64 && (b >> n) != 0 {
                        // docs give no behaviour for an exponent wider than the declared xx bits
                        return Step::Undefined("exp-exponent-wider-than-declared-bits");
                    }
                    st.push(fpow(a, b));
                }
                _ => {
                    let b = st.pop();
                    let a = st.pop();
                    st.push(fpow(a, b));
                }
            }
        }
        Ilog2 => {
            // b <- floor(log2(a)); fails if a = 0
            let a = st.pop();
            if a == 0 {
                return Step::Fail(FailKind::LogArgumentZero);
            }
            st.push(63 - a.leading_zeros() as u64);
        }
        Not => {
            let a = st.pop();
            if a > 1 {
                return Step::Fail(FailKind::NotBinary);
            }
            st.push(1 - a);
        }
        And | Or | Xor => {
            let b = st.pop();
            let a = st.pop();
            if a.max(b) > 1 {
                return Step::Fail(FailKind::NotBinary);
            }
            st.push(match ins.op {
                And => a * b,
                Or => a + b - a * b,
                _ => a + b - 2 * a * b,
            });
        }
        // ---------------------------------------------------------------- comparisons
        Eq | Neq => {
            let b = match imm_val(ins) {
                Some(b) => b,
                None => st.pop(),
            };
            let a = st.pop();
            st.push(if ins.op == Eq { (a == b) as u64 } else { (a != b) as u64 });
        }
        Lt | Lte | Gt | Gte => {
            let b = st.pop();
            let a = st.pop();
            let c = match ins.op {
                Lt => a < b,
                Lte => a <= b,
                Gt => a > b,
                _ => a >= b,
            };
            st.push(c as u64);
        }
        IsOdd => {
            let a = st.pop();
            st.push(a & 1);
        }
        Eqw => {
            // [A, B, ...] -> [c, A, B, ...]
            let c = (0..4).all(|i| st.get(i) == st.get(i + 4));
            st.push(c as u64);
        }
        // ---------------------------------------------------------------- extension field
        Ext2Add | Ext2Sub | Ext2Mul | Ext2Div => {
            // [b1, b0, a1, a0, ...] -> [c1, c0, ...]
            let b1 = st.pop();
            let b0 = st.pop();
            let a1 = st.pop();
            let a0 = st.pop();
            let (c0, c1) = match ins.op {
                Ext2Add => (fadd(a0, b0), fadd(a1, b1)),
                Ext2Sub => (fsub(a0, b0), fsub(a1, b1)),
                // product in the quadratic extension field F_p[x]/(x^2 - x + 2). The table's formula
                // for c1, `(a0 + a1) * (b0 + b1)`, is a documentation typo (it lacks `- a0 * b0`) and
                // is recorded as doc erratum by the monitor (see `ext2_mul_as_printed`).
                Ext2Mul => ext2_mul_true(a0, a1, b0, b1),
                _ => {
                    if b0 == 0 && b1 == 0 {
                        return Step::Fail(FailKind::DivideByZero { imm: false });
                    }
                    let (i0, i1) = ext2_inv(b0, b1);
                    ext2_mul_true(a0, a1, i0, i1)
                }
            };
            st.push(c0);
            st.push(c1);
        }
        Ext2Neg => {
            let a1 = st.pop();
            let a0 = st.pop();
            st.push(fneg(a0));
            st.push(fneg(a1));
        }
        Ext2Inv => {
            let a1 = st.pop();
            let a0 = st.pop();
            if a0 == 0 && a1 == 0 {
                return Step::Fail(FailKind::DivideByZero { imm: false });
            }
            let (i0, i1) = ext2_inv(a0, a1);
            st.push(i0);
            st.push(i1);
        }
        // ---------------------------------------------------------------- u32 conversions/tests
        U32Test => {
            let b = is_u32(st.get(0));
            st.push(b as u64);
        }
        U32Testw => {
            let b = (0..4).all(|i| is_u32(st.get(i)));
            st.push(b as u64);
        }
        U32Assert | U32Assert2 | U32Assertw => {
            let n = match ins.op {
                U32Assert => 1,
                U32Assert2 => 2,
                _ => 4,
            };
            if (0..n).any(|i| !is_u32(st.get(i))) {
                return Step::Fail(FailKind::NotU32 { code: Some(err_code(ins)) });
            }
        }
        U32Cast => {
            let a = st.pop();
            st.push(a & M32);
        }
        U32Split => {
            // [a, ...] -> [c, b, ...]; b = a mod 2^32, c = floor(a / 2^32)
            let a = st.pop();
            st.push(a & M32);
            st.push(a >> 32);
        }
        // ---------------------------------------------------------------- u32 arithmetic
        U32OverflowingAdd | U32WrappingAdd | U32OverflowingSub | U32WrappingSub | U32OverflowingMul
        | U32WrappingMul => {
            let b = match imm_val(ins) {
                Some(b) => b,
                None => st.pop(),
            };
            let a = st.pop();
            if !is_u32(a) || !is_u32(b) {
                return Step::Undefined("u32-arith-on-non-u32");
            }
            let (lo, hi) = match ins.op {
                U32OverflowingAdd | U32WrappingAdd => ((a + b) & M32, (a + b) >> 32),
                U32OverflowingSub | U32WrappingSub => (a.wrapping_sub(b) & M32, (a < b) as u64),
                _ => ((a * b) & M32, (a * b) >> 32),
            };
            st.push(lo);
            if matches!(ins.op, U32OverflowingAdd | U32OverflowingSub | U32OverflowingMul) {
                st.push(hi);
            }
        }
        U32OverflowingAdd3 | U32WrappingAdd3 => {
            // [c, b, a, ...] -> [e, d, ...]
            let c = st.pop();
            let b = st.pop();
            let a = st.pop();
            if !is_u32(a) || !is_u32(b) || !is_u32(c) {
                return Step::Undefined("u32-arith-on-non-u32");
            }
            let s = a + b + c;
            st.push(s & M32);
            if ins.op == U32OverflowingAdd3 {
                st.push(s >> 32);
            }
        }
        U32OverflowingMadd | U32WrappingMadd => {
            // [b, a, c, ...] -> [e, d, ...]; d = (a*b+c) mod 2^32, e = floor((a*b+c)/2^32)
            let b = st.pop();
            let a = st.pop();
            let c = st.pop();
            if !is_u32(a) || !is_u32(b) || !is_u32(c) {
                return Step::Undefined("u32-arith-on-non-u32");
            }
            let s = a * b + c;
            st.push(s & M32);
            if ins.op == U32OverflowingMadd {
                st.push(s >> 32);
            }
        }
        U32Div | U32Mod | U32Divmod => {
            let is_imm = imm_val(ins).is_some();
            let b = match imm_val(ins) {
                Some(b) => b,
                None => st.pop(),
            };
            let a = st.pop();
            if !is_u32(a) || !is_u32(b) {
                // also covers b = 0 with a >= 2^32, where both clauses of the docs apply
                return Step::Undefined("u32-arith-on-non-u32");
            }
            if b == 0 {
                return Step::Fail(FailKind::DivideByZero { imm: is_imm });
            }
            match ins.op {
                U32Div => st.push(a / b),
                U32Mod => st.push(a % b),
                _ => {
                    // [d, c, ...]: c quotient, d remainder
                    st.push(a / b);
                    st.push(a % b);
                }
            }
        }
        // ---------------------------------------------------------------- u32 bitwise
        U32And | U32Or | U32Xor => {
            let b = st.pop();
            let a = st.pop();
            if !is_u32(a) || !is_u32(b) {
                return Step::Fail(FailKind::NotU32 { code: None });
            }
            st.push(match ins.op {
                U32And => a & b,
                U32Or => a | b,
                _ => a ^ b,
            });
        }
        U32Not => {
            let a = st.pop();
            if !is_u32(a) {
                return Step::Fail(FailKind::NotU32 { code: None });
            }
            st.push(!a & M32);
        }
        U32Shl | U32Shr | U32Rotl | U32Rotr => {
            let b = match imm_val(ins) {
                Some(b) => b,
                None => st.pop(),
            };
            let a = st.pop();
            if !is_u32(a) || b > 31 {
                return Step::Undefined("u32-shift-out-of-domain");
            }
            let a32 = a as u32;
            st.push(match ins.op {
                U32Shl => (a << b) & M32,
                U32Shr => a >> b,
                U32Rotl => a32.rotate_left(b as u32) as u64,
                _ => a32.rotate_right(b as u32) as u64,
            });
        }
        U32Popcnt | U32Clz | U32Ctz | U32Clo | U32Cto => {
            let a = st.pop();
            if !is_u32(a) {
                return Step::Undefined("u32-bitcount-on-non-u32");
            }
            let a32 = a as u32;
            st.push(match ins.op {
                U32Popcnt => a32.count_ones(),
                U32Clz => a32.leading_zeros(),
                U32Ctz => a32.trailing_zeros(),
                U32Clo => a32.leading_ones(),
                _ => a32.trailing_ones(),
            } as u64);
        }
        // ---------------------------------------------------------------- u32 comparison
        U32Lt | U32Lte | U32Gt | U32Gte | U32Min | U32Max => {
            let b = st.pop();
            let a = st.pop();
            if !is_u32(a) || !is_u32(b) {
                return Step::Undefined("u32-compare-on-non-u32");
            }
            st.push(match ins.op {
                U32Lt => (a < b) as u64,
                U32Lte => (a <= b) as u64,
                U32Gt => (a > b) as u64,
                U32Gte => (a >= b) as u64,
                U32Min => {
                    if a < b {
                        a
                    } else {
                        b
                    }
                }
                _ => {
                    if a > b {
                        a
                    } else {
                        b
                    }
                }
            });
        }
        // ---------------------------------------------------------------- stack manipulation
        Drop => {
            st.pop();
        }
        Dropw => {
            for _ in 0..4 {
                st.pop();
            }
        }
        Padw => {
            for _ in 0..4 {
                st.push(0);
            }
        }
        Dup => {
            let n = imm_val(ins).unwrap_or(0) as usize;
            let x = st.get(n);
            st.push(x);
        }
        Dupw => {
            let n = imm_val(ins).unwrap_or(0) as usize;
            let w: Vec<u64> = st.0[4 * n..4 * n + 4].to_vec();
            for x in w.into_iter().rev() {
                st.push(x);
            }
        }
        Swap => {
            let n = imm_val(ins).unwrap_or(1) as usize;
            st.0.swap(0, n);
        }
        Swapw => {
            let n = imm_val(ins).unwrap_or(1) as usize;
            for i in 0..4 {
                st.0.swap(i, 4 * n + i);
            }
        }
        Swapdw => {
            // [D, C, B, A, ...] -> [B, A, D, C, ...]
            for i in 0..8 {
                st.0.swap(i, i + 8);
            }
        }
        Movup => {
            let n = imm_val(ins).unwrap_or(0) as usize;
            let x = st.0.remove(n);
            st.0.insert(0, x);
        }
        Movupw => {
            let n = imm_val(ins).unwrap_or(0) as usize;
            let w: Vec<u64> = st.0.drain(4 * n..4 * n + 4).collect();
            for x in w.into_iter().rev() {
                st.0.insert(0, x);
            }
        }
        Movdn => {
            let n = imm_val(ins).unwrap_or(0) as usize;
            let x = st.0.remove(0);
            st.0.insert(n, x);
        }
        Movdnw => {
            let n = imm_val(ins).unwrap_or(0) as usize;
            let w: Vec<u64> = st.0.drain(0..4).collect();
            for (k, x) in w.into_iter().enumerate() {
                st.0.insert(4 * n + k, x);
            }
        }
        Cswap => {
            // [c, b, a, ...] -> [e, d, ...]; c = 0: (e, d) = (b, a); c = 1: (e, d) = (a, b)
            let c = st.pop();
            if c > 1 {
                return Step::Fail(FailKind::NotBinary);
            }
            if c == 1 {
                st.0.swap(0, 1);
            }
        }
        Cswapw => {
            let c = st.pop();
            if c > 1 {
                return Step::Fail(FailKind::NotBinary);
            }
            if c == 1 {
                for i in 0..4 {
                    st.0.swap(i, i + 4);
                }
            }
        }
        Cdrop => {
            // [c, b, a, ...] -> [d, ...]; d = a if c = 0, b if c = 1
            let c = st.pop();
            if c > 1 {
                return Step::Fail(FailKind::NotBinary);
            }
            let b = st.pop();
            let a = st.pop();
            st.push(if c == 1 { b } else { a });
        }
        Cdropw => {
            // [c, B, A, ...] -> [D, ...]; D = A if c = 0, B if c = 1
            let c = st.pop();
            if c > 1 {
                return Step::Fail(FailKind::NotBinary);
            }
            if c == 1 {
                st.0.drain(4..8);
            } else {
                st.0.drain(0..4);
            }
            st.fill();
        }
        // ---------------------------------------------------------------- inputs
        Push => {
            if let Imm::Vals(vs) = &ins.imm {
                for v in vs {
                    st.push(*v);
                }
            }
        }
        Sdepth => {
            let d = st.depth() as u64;
            st.push(d);
        }
    }
    Step::Ok
}

#[cfg(test)]
mod tests {
    use super::*;

    #[test]
    fn ext2_inverse_is_inverse() {
        let (i0, i1) = ext2_inv(2, 3);
        assert_eq!(ext2_mul_true(2, 3, i0, i1), (1, 0));
    }

    #[test]
    fn docs_push_example() {
        let a = ProgramText::from_source("begin push.0x00001234.0x00005678.0x00009012.0x0000abcd end").unwrap();
        let b = ProgramText::from_source(
            "begin push.0x341200000000000078560000000000001290000000000000cdab000000000000 end",
        )
        .unwrap();
        let c = ProgramText::from_source("begin push.4660.22136.36882.43981 end").unwrap();
        let va = run_program(&a, &[]);
        assert_eq!(va, run_program(&b, &[]));
        assert_eq!(va, run_program(&c, &[]));
        if let Verdict::Defined(s) = va {
            assert_eq!(&s[..4], &[43981, 36882, 22136, 4660]);
            assert_eq!(s.len(), 20);
        } else {
            panic!()
        }
    }
}
