//! M-flow — structured-program generator + reference evaluator for C06.
//!
//! Written from docs/src/user_docs/assembly/{flow_control,code_organization,io_operations}.md:
//!   * `if.true T else E end` pops the top: 1 -> T, 0 -> E (or nothing when there is no else),
//!     anything else -> execution fails;
//!   * `while.true B end` pops the top: 1 -> B is executed, then the stack is popped AGAIN: 1 -> again,
//!     0 -> exit, non-binary -> execution fails; 0 at entry -> skipped; non-binary at entry -> fails;
//!   * `repeat.n B end` = n copies of B;
//!   * `exec.f` = body of f at the call site, with f's own frame of locals.
//!
//! Programs are trees whose leaves append a unique marker to a log in memory (count at `LOG_PTR`,
//! entry i at `LOG_BASE + i`) and fold it into an accumulator kept on top of the stack, so the path
//! actually executed is observable twice (memory and stack). Every condition value is SCRIPTED: it is
//! taken from the advice stack by `adv_push.1` right before the `if.true` / `while.true` and at the end
//! of every loop body.

use crate::util::{Rng8, P};
use rand::Rng;

pub const LOG_PTR: u64 = 100;
pub const LOG_BASE: u64 = 1000;
pub const SCRATCH_BASE: u64 = 100_000;
pub const ACC_MUL: u64 = 31;

#[derive(Clone, Debug)]
pub enum Node {
    /// logs the marker in memory and folds it into the accumulator (stack neutral)
    Mark(u32),
    /// additionally leaves the marker on the stack right under the accumulator (stack grows by one)
    StackMark(u32),
    /// `dup loc_store.i` — only inside a procedure with locals
    LocSet(u16),
    /// `loc_load.i add` — only inside a procedure with locals (all locals are initialised on entry)
    LocGet(u16),
    If { then_: Vec<Node>, else_: Option<Vec<Node>> },
    While { body: Vec<Node> },
    Repeat { n: u32, body: Vec<Node> },
    Exec { proc_: usize },
    /// `call.c::c<k>`: a call (not inlined, new context) of the library procedure `lib::c::c<k>`,
    /// whose body is `add.<CALL_ADD[k]>` on the accumulator. A body is a body: `exec` of a procedure
    /// containing calls must still behave like the pasted body, including at run time.
    CallLeaf(u8),
}

pub const CALL_ADD: [u64; 4] = [11, 1_000_003, 4_294_967_311, 77];

/// source of the module `lib::c` used by `CallLeaf`
pub fn call_lib_src() -> String {
    CALL_ADD.iter().enumerate().map(|(k, a)| format!("export.c{k}\n  add.{a}\nend\n")).collect()
}

pub fn uses_call(p: &FlowProg) -> bool {
    fn go(p: &FlowProg, b: &[Node]) -> bool {
        b.iter().any(|n| match n {
            Node::CallLeaf(_) => true,
            Node::If { then_, else_ } => go(p, then_) || else_.as_ref().map(|e| go(p, e)).unwrap_or(false),
            Node::While { body } | Node::Repeat { body, .. } => go(p, body),
            _ => false,
        })
    }
    go(p, &p.main) || p.procs.iter().any(|pr| go(p, &pr.body))
}

#[derive(Clone, Debug)]
pub struct Proc {
    pub name: String,
    pub locals: u16,
    /// lives in the library module `lib::m` (exported) instead of the program module
    pub imported: bool,
    pub body: Vec<Node>,
}

impl Proc {
    /// value a local is initialised with on procedure entry
    pub fn local_init(&self, pidx: usize, i: u16) -> u64 {
        7_000_000 + (pidx as u64) * 1000 + i as u64
    }
}

#[derive(Clone, Debug, Default)]
pub struct FlowProg {
    /// library procedures first (index order = definition order), then program procedures
    pub procs: Vec<Proc>,
    pub main: Vec<Node>,
}

#[derive(Clone, Copy, Debug, PartialEq, Eq, Hash)]
pub enum DecKind {
    If,
    LoopEntry,
    AfterIter,
}

impl DecKind {
    pub fn name(&self) -> &'static str {
        match self {
            DecKind::If => "if",
            DecKind::LoopEntry => "loop-entry",
            DecKind::AfterIter => "after-iteration",
        }
    }
    pub fn letter(&self) -> char {
        match self {
            DecKind::If => 'i',
            DecKind::LoopEntry => 'e',
            DecKind::AfterIter => 'a',
        }
    }
}

#[derive(Clone, Debug)]
pub struct Decision {
    pub kind: DecKind,
    pub depth: usize,
    pub value: u64,
    /// index in the script
    pub idx: usize,
}

#[derive(Clone, Debug, Default)]
pub struct RefOutcome {
    pub log: Vec<u64>,
    /// top first
    pub stack: Vec<u64>,
    pub fail: Option<(DecKind, usize)>,
    pub decisions: Vec<Decision>,
    /// iterations per loop entry (in entry order)
    pub loop_iters: Vec<usize>,
    /// (imported?, with locals?) per executed exec
    pub execs: Vec<(bool, bool)>,
    pub repeats: Vec<u32>,
    pub leaves: usize,
    /// executed `call` leaves
    pub calls: usize,
    /// ... of which inside an exec'd imported procedure
    pub calls_in_imported: usize,
    pub script_exhausted: bool,
}

// GENERATOR
// ================================================================================================

struct GenCtx<'a> {
    rng: &'a mut Rng8,
    next_marker: u32,
    allow_stackmark: bool,
    allow_call: bool,
}

fn gen_body(g: &mut GenCtx, budget: usize, callable: &[usize], locals: u16, max_items: usize) -> Vec<Node> {
    let n = g.rng.gen_range(1..=max_items);
    let mut out = vec![];
    for _ in 0..n {
        let r = g.rng.gen_range(0..100);
        let node = if budget == 0 || r < 30 {
            leaf(g, locals)
        } else if r < 48 {
            let then_ = gen_body(g, budget - 1, callable, locals, 2);
            let else_ = if g.rng.gen_range(0..4) > 0 { Some(gen_body(g, budget - 1, callable, locals, 2)) } else { None };
            Node::If { then_, else_ }
        } else if r < 68 {
            Node::While { body: gen_body(g, budget - 1, callable, locals, 2) }
        } else if r < 82 {
            let n = *[1u32, 1, 2, 2, 3, 3, 4, 5, 7].get(g.rng.gen_range(0..9)).unwrap();
            Node::Repeat { n, body: gen_body(g, budget - 1, callable, locals, 2) }
        } else if !callable.is_empty() {
            Node::Exec { proc_: callable[g.rng.gen_range(0..callable.len())] }
        } else {
            leaf(g, locals)
        };
        out.push(node);
    }
    out
}

fn leaf(g: &mut GenCtx, locals: u16) -> Node {
    let r = g.rng.gen_range(0..100);
    if locals > 0 && r < 20 {
        Node::LocSet(g.rng.gen_range(0..locals))
    } else if locals > 0 && r < 40 {
        Node::LocGet(g.rng.gen_range(0..locals))
    } else if g.allow_call && (40..52).contains(&r) {
        Node::CallLeaf(g.rng.gen_range(0..CALL_ADD.len() as u8))
    } else if g.allow_stackmark && r < 55 {
        g.next_marker += 1;
        Node::StackMark(g.next_marker)
    } else {
        g.next_marker += 1;
        Node::Mark(g.next_marker)
    }
}

/// number of leaves after unrolling every repeat and inlining every exec (static size)
pub fn expanded_size(p: &FlowProg, body: &[Node]) -> usize {
    body.iter()
        .map(|n| match n {
            Node::If { then_, else_ } => 1 + expanded_size(p, then_) + else_.as_ref().map(|e| expanded_size(p, e)).unwrap_or(0),
            Node::While { body } => 1 + expanded_size(p, body),
            Node::Repeat { n, body } => (*n as usize) * expanded_size(p, body),
            Node::Exec { proc_ } => 1 + p.procs[*proc_].locals as usize + expanded_size(p, &p.procs[*proc_].body),
            _ => 1,
        })
        .sum()
}

pub fn gen_prog(rng: &mut Rng8) -> FlowProg {
    loop {
        let allow_stackmark = rng.gen_range(0..3) == 0;
        let allow_call = rng.gen_range(0..2) == 0;
        let mut g = GenCtx { rng, next_marker: 0, allow_stackmark, allow_call };
        let n_lib = g.rng.gen_range(0..=2usize);
        let n_loc = g.rng.gen_range(0..=3usize);
        let mut prog = FlowProg::default();
        for i in 0..n_lib + n_loc {
            let imported = i < n_lib;
            // library procedures can only execute earlier library procedures; program procedures can
            // execute every library procedure and every earlier program procedure
            let callable: Vec<usize> = (0..i).collect();
            let locals = *[0u16, 0, 0, 1, 2, 4].get(g.rng.gen_range(0..6)).unwrap();
            let budget = g.rng.gen_range(0..=2);
            let body = gen_body(&mut g, budget, &callable, locals, 3);
            prog.procs.push(Proc { name: format!("p{i}"), locals, imported, body });
        }
        let callable: Vec<usize> = (0..prog.procs.len()).collect();
        let budget = g.rng.gen_range(1..=3);
        prog.main = gen_body(&mut g, budget, &callable, 0, 4);
        let size = expanded_size(&prog, &prog.main);
        if size <= 250 {
            return prog;
        }
    }
}

// RENDERING
// ================================================================================================

#[derive(Clone, Copy, Debug, PartialEq, Eq)]
pub struct Variant {
    /// write every `repeat.n B end` as n copies of B
    pub unroll: bool,
    /// paste the body of every executed procedure at the call site (locals become scratch memory)
    pub inline: bool,
}

pub const PLAIN: Variant = Variant { unroll: false, inline: false };

struct Renderer<'a> {
    p: &'a FlowProg,
    v: Variant,
    next_site: u64,
    /// the text being produced belongs to the library module
    in_lib: bool,
}

#[derive(Clone, Copy)]
enum Frame {
    None,
    /// real locals of procedure
    Locals,
    /// scratch memory base of an inlined frame
    Scratch(u64),
}

fn mark_code(m: u32) -> String {
    format!(
        "push.{m} mem_load.{LOG_PTR} dup add.1 mem_store.{LOG_PTR} push.{LOG_BASE} add mem_store mul.{ACC_MUL} add.{m}"
    )
}

impl<'a> Renderer<'a> {
    fn body(&mut self, body: &[Node], fr: Frame, out: &mut String, ind: usize) {
        for n in body {
            self.node(n, fr, out, ind);
        }
    }

    fn line(out: &mut String, ind: usize, s: &str) {
        for _ in 0..ind {
            out.push_str("  ");
        }
        out.push_str(s);
        out.push('\n');
    }

    fn node(&mut self, n: &Node, fr: Frame, out: &mut String, ind: usize) {
        match n {
            Node::Mark(m) => Self::line(out, ind, &mark_code(*m)),
            Node::StackMark(m) => Self::line(out, ind, &format!("{} push.{m} swap", mark_code(*m))),
            Node::LocSet(i) => match fr {
                Frame::Locals => Self::line(out, ind, &format!("dup loc_store.{i}")),
                Frame::Scratch(b) => Self::line(out, ind, &format!("dup mem_store.{}", b + *i as u64)),
                Frame::None => unreachable!("LocSet outside a frame"),
            },
            Node::LocGet(i) => match fr {
                Frame::Locals => Self::line(out, ind, &format!("loc_load.{i} add")),
                Frame::Scratch(b) => Self::line(out, ind, &format!("mem_load.{} add", b + *i as u64)),
                Frame::None => unreachable!("LocGet outside a frame"),
            },
            Node::If { then_, else_ } => {
                Self::line(out, ind, "adv_push.1 if.true");
                self.body(then_, fr, out, ind + 1);
                if let Some(e) = else_ {
                    Self::line(out, ind, "else");
                    self.body(e, fr, out, ind + 1);
                }
                Self::line(out, ind, "end");
            }
            Node::While { body } => {
                Self::line(out, ind, "adv_push.1 while.true");
                self.body(body, fr, out, ind + 1);
                Self::line(out, ind + 1, "adv_push.1");
                Self::line(out, ind, "end");
            }
            Node::Repeat { n, body } => {
                if self.v.unroll {
                    for _ in 0..*n {
                        self.body(body, fr, out, ind);
                    }
                } else {
                    Self::line(out, ind, &format!("repeat.{n}"));
                    self.body(body, fr, out, ind + 1);
                    Self::line(out, ind, "end");
                }
            }
            Node::CallLeaf(k) => Self::line(out, ind, &format!("call.c::c{k}")),
            Node::Exec { proc_ } => {
                let pr = &self.p.procs[*proc_];
                if self.v.inline {
                    let base = SCRATCH_BASE + self.next_site * 16;
                    self.next_site += 1;
                    for i in 0..pr.locals {
                        Self::line(out, ind, &format!("push.{} mem_store.{}", pr.local_init(*proc_, i), base + i as u64));
                    }
                    let body = pr.body.clone();
                    self.body(&body, Frame::Scratch(base), out, ind);
                } else {
                    Self::line(out, ind, &format!("exec.{}", self.exec_name(*proc_)));
                }
            }
        }
    }

    fn exec_name(&self, callee: usize) -> String {
        let pr = &self.p.procs[callee];
        if pr.imported && !self.in_lib {
            format!("m::{}", pr.name)
        } else {
            pr.name.clone()
        }
    }
}

/// Renders (program source, optional library module source).
pub fn render(p: &FlowProg, v: Variant) -> (String, Option<String>) {
    let has_lib = p.procs.iter().any(|x| x.imported) && !v.inline;
    let mut lib = String::new();
    let mut src = String::new();
    let calls = uses_call(p);
    if has_lib {
        src.push_str("use.lib::m\n");
    }
    if calls {
        src.push_str("use.lib::c\n");
        if has_lib {
            lib.push_str("use.lib::c\n");
        }
    }
    if !v.inline {
        for (pi, pr) in p.procs.iter().enumerate() {
            let mut r = Renderer { p, v, next_site: 0, in_lib: pr.imported };
            let out = if pr.imported { &mut lib } else { &mut src };
            let kw = if pr.imported { "export" } else { "proc" };
            out.push_str(&format!("{kw}.{}.{}\n", pr.name, pr.locals));
            for i in 0..pr.locals {
                Renderer::line(out, 1, &format!("push.{} loc_store.{i}", pr.local_init(pi, i)));
            }
            r.body(&pr.body, if pr.locals > 0 { Frame::Locals } else { Frame::None }, out, 1);
            out.push_str("end\n");
        }
    }
    src.push_str("begin\n");
    let mut r = Renderer { p, v, next_site: 0, in_lib: false };
    r.body(&p.main, Frame::None, &mut src, 1);
    src.push_str("end\n");
    (src, if has_lib { Some(lib) } else { None })
}

/// compact shape of the program (nesting signature)
pub fn signature(p: &FlowProg) -> String {
    fn go(p: &FlowProg, b: &[Node], out: &mut String, depth: usize) {
        for n in b {
            match n {
                Node::Mark(_) => out.push('m'),
                Node::StackMark(_) => out.push('s'),
                Node::LocSet(_) => out.push('w'),
                Node::LocGet(_) => out.push('r'),
                Node::CallLeaf(_) => out.push('c'),
                Node::If { then_, else_ } => {
                    out.push_str("I(");
                    go(p, then_, out, depth + 1);
                    if let Some(e) = else_ {
                        out.push('|');
                        go(p, e, out, depth + 1);
                    }
                    out.push(')');
                }
                Node::While { body } => {
                    out.push_str("W(");
                    go(p, body, out, depth + 1);
                    out.push(')');
                }
                Node::Repeat { n, body } => {
                    out.push_str(&format!("R{n}("));
                    go(p, body, out, depth + 1);
                    out.push(')');
                }
                Node::Exec { proc_ } => {
                    let pr = &p.procs[*proc_];
                    out.push_str(&format!("X{}{}(", if pr.imported { 'i' } else { 'l' }, pr.locals));
                    if depth < 8 {
                        go(p, &pr.body, out, depth + 1);
                    }
                    out.push(')');
                }
            }
        }
    }
    let mut s = String::new();
    go(p, &p.main, &mut s, 0);
    s
}

// REFERENCE EVALUATOR
// ================================================================================================

pub const NON_BINARY: [u64; 8] = [2, 3, P - 1, 1 << 32, (1 << 32) - 1, 1 << 63, P - 2, 0x1_0000_0001];

pub fn class_of(v: u64) -> char {
    match v {
        0 => '0',
        1 => '1',
        _ => 'N',
    }
}

pub enum Source<'a> {
    /// draw binary decisions from the policy and record them
    Gen { rng: &'a mut Rng8, script: Vec<u64>, leaf_budget: usize },
    Replay { script: &'a [u64], pos: usize },
}

struct Eval<'a> {
    p: &'a FlowProg,
    src: Source<'a>,
    /// top LAST
    stack: Vec<u64>,
    out: RefOutcome,
    /// remaining iterations planned for the loops currently being generated
    plan: Vec<usize>,
    /// nesting depth of exec'd imported procedures
    imp_depth: usize,
}

fn fmul(a: u64, b: u64) -> u64 {
    ((a as u128 * b as u128) % P as u128) as u64
}
fn fadd(a: u64, b: u64) -> u64 {
    ((a as u128 + b as u128) % P as u128) as u64
}

enum Stop {
    Fail,
}

impl<'a> Eval<'a> {
    fn next(&mut self, kind: DecKind, depth: usize) -> Result<u64, Stop> {
        let leaves = self.out.leaves;
        let v = match &mut self.src {
            Source::Gen { rng, script, leaf_budget } => {
                let over = leaves >= *leaf_budget;
                let v = match kind {
                    DecKind::If => {
                        if rng.gen_range(0..2) == 0 {
                            1
                        } else {
                            0
                        }
                    }
                    DecKind::LoopEntry => {
                        let n = if over { 0 } else { *[0usize, 1, 1, 2, 2, 3, 4].get(rng.gen_range(0..7)).unwrap() };
                        self.plan.push(n);
                        (n > 0) as u64
                    }
                    DecKind::AfterIter => {
                        let left = self.plan.last_mut().expect("loop plan");
                        if over {
                            *left = 0;
                        }
                        *left = left.saturating_sub(1);
                        (*left > 0) as u64
                    }
                };
                script.push(v);
                v
            }
            Source::Replay { script, pos } => {
                if *pos >= script.len() {
                    self.out.script_exhausted = true;
                    return Err(Stop::Fail);
                }
                let v = script[*pos];
                *pos += 1;
                v
            }
        };
        let idx = self.out.decisions.len();
        self.out.decisions.push(Decision { kind, depth, value: v, idx });
        if v > 1 {
            self.out.fail = Some((kind, depth));
            return Err(Stop::Fail);
        }
        Ok(v)
    }

    fn acc(&mut self) -> &mut u64 {
        self.stack.last_mut().expect("accumulator")
    }

    fn mark(&mut self, m: u32) {
        self.out.log.push(m as u64);
        let a = *self.acc();
        *self.acc() = fadd(fmul(a, ACC_MUL), m as u64);
        self.out.leaves += 1;
    }

    fn body(&mut self, body: &[Node], depth: usize, frame: &mut Vec<u64>) -> Result<(), Stop> {
        for n in body {
            match n {
                Node::Mark(m) => self.mark(*m),
                Node::StackMark(m) => {
                    self.mark(*m);
                    let a = self.stack.pop().unwrap();
                    self.stack.push(*m as u64);
                    self.stack.push(a);
                }
                Node::LocSet(i) => {
                    frame[*i as usize] = *self.acc();
                    self.out.leaves += 1;
                }
                Node::LocGet(i) => {
                    let a = *self.acc();
                    *self.acc() = fadd(a, frame[*i as usize]);
                    self.out.leaves += 1;
                }
                Node::CallLeaf(k) => {
                    let a = *self.acc();
                    *self.acc() = fadd(a, CALL_ADD[*k as usize]);
                    self.out.leaves += 1;
                    self.out.calls += 1;
                    if self.imp_depth > 0 {
                        self.out.calls_in_imported += 1;
                    }
                }
                Node::If { then_, else_ } => {
                    let v = self.next(DecKind::If, depth)?;
                    if v == 1 {
                        self.body(then_, depth + 1, frame)?;
                    } else if let Some(e) = else_ {
                        self.body(e, depth + 1, frame)?;
                    }
                }
                Node::While { body } => {
                    let mut iters = 0;
                    let slot = self.out.loop_iters.len();
                    self.out.loop_iters.push(0);
                    let mut v = self.next(DecKind::LoopEntry, depth)?;
                    while v == 1 {
                        iters += 1;
                        self.out.loop_iters[slot] = iters;
                        self.body(body, depth + 1, frame)?;
                        v = self.next(DecKind::AfterIter, depth)?;
                    }
                    if matches!(self.src, Source::Gen { .. }) {
                        self.plan.pop();
                    }
                }
                Node::Repeat { n, body } => {
                    self.out.repeats.push(*n);
                    for _ in 0..*n {
                        self.body(body, depth + 1, frame)?;
                    }
                }
                Node::Exec { proc_ } => {
                    let pr = &self.p.procs[*proc_];
                    self.out.execs.push((pr.imported, pr.locals > 0));
                    // a fresh frame of locals, initialised by the procedure's prologue
                    let mut fr: Vec<u64> = (0..pr.locals).map(|i| pr.local_init(*proc_, i)).collect();
                    self.out.leaves += pr.locals as usize;
                    if pr.imported {
                        self.imp_depth += 1;
                    }
                    self.body(&pr.body, depth + 1, &mut fr)?;
                    if pr.imported {
                        self.imp_depth -= 1;
                    }
                }
            }
        }
        Ok(())
    }
}

/// Runs the reference evaluator. `stack_in` is top first.
pub fn evaluate(p: &FlowProg, stack_in: &[u64], src: Source) -> (RefOutcome, Vec<u64>) {
    let mut stack: Vec<u64> = stack_in.to_vec();
    while stack.len() < 16 {
        stack.push(0);
    }
    stack.reverse();
    let mut e = Eval { p, src, stack, out: RefOutcome::default(), plan: vec![], imp_depth: 0 };
    let mut frame = vec![];
    let _ = e.body(&p.main, 1, &mut frame);
    let mut st = e.stack.clone();
    st.reverse();
    e.out.stack = st;
    let script = match e.src {
        Source::Gen { script, .. } => script,
        Source::Replay { script, .. } => script.to_vec(),
    };
    (e.out, script)
}

/// decision vector as text: kind letter + value class (+ depth), first `cap` decisions
pub fn decision_vector(o: &RefOutcome, cap: usize) -> String {
    let mut s = String::new();
    for d in o.decisions.iter().take(cap) {
        s.push(d.kind.letter());
        s.push(class_of(d.value));
    }
    if o.decisions.len() > cap {
        s.push('+');
    }
    s
}
