//! Reference models written from the documentation (docs/src), not from the code under test.
pub mod isa;
pub mod flow;
pub mod mast;
