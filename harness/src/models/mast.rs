//! M-mast — reference model of the program commitment (MAST root).
//!
//! Written from `docs/src/design/programs.md` ("Code blocks", "Span block", "Program hash
//! computation"), `docs/src/design/decoder/main.md` ("Operation group decoding", "Operation batch
//! flags", "Handling immediate values") and the opcode tables of
//! `docs/src/design/stack/op_constraints.md`. Hashing is done by calling miden-crypto directly
//! (`Rpo256::merge_in_domain`, `Rpo256::hash_elements`); nothing of `core/src/program/blocks/*.rs` is
//! re-used except the *public structure* of a `CodeBlock` (children, callee hash, list of operations).
//!
//! Rules taken from the docs:
//!  * join  : hash_join(a, b)            a = first child, b = second child
//!  * split : hash_split(a, b)           a = true branch, b = false branch
//!  * loop  : hash_loop(a, 0)            a = body
//!  * call  : hash_call(a, 0)            a = callee
//!  * syscall: hash_syscall(a, 0)
//!  * dyn   : constant = hash_dyn(0, 0)
//!    where hash_domain(a, b) is the 2-to-1 RPO hash with the *second capacity element* set to the
//!    domain, and domain = opcode of the operation which starts the block.
//!  * span  : hash(a_1 … a_k) over the k batches, "each batch of operations is defined as containing
//!    8 field elements"; unused groups are NOOP (= 0) groups.
//!  * a group is one field element: up to 9 opcodes of 7 bits, first operation in the least
//!    significant position, or one immediate value;
//!  * a batch has up to 8 groups; for the decoder the number of groups of a batch is one of
//!    1, 2, 4, 8 (padded with NOOP groups);
//!  * an immediate value "takes place of a single operation group", the one right after the groups
//!    already in use in the batch (diagram in "Handling immediate values"; the 8-push example);
//!  * "An operation carrying an immediate value cannot be the last operation in a group."
//!
//! Details the docs leave open, settled by the semantic requirement "reading the groups of a batch
//! back (opcodes LSB first; an immediate is taken from the next not yet consumed group of the same
//! batch) yields the operation sequence up to NOOP padding":
//!  (O1) an operation with an immediate arriving when the current group already holds 8 operations
//!       cannot be put at index 8 (a NOOP cannot follow it inside the group), so the group is closed
//!       (its 9th position stays NOOP) and the operation opens the next group;
//!  (O2) an operation with an immediate arriving when the batch has no free group left for the
//!       immediate (or, in case O1, for the new group *and* the immediate) starts a new batch; an
//!       immediate must live in the batch of its operation because the decoder removes it from the op
//!       group table which is filled per batch;
//!  (O3) the NOOP "inserted after" a group-final PUSH has opcode 0 in the most significant used
//!       position, so it never changes the value of a group. It cannot be seen in the commitment; the
//!       real `OpBatch::ops()/op_counts()` list only the operations given (the VM adds the NOOP when it
//!       executes the group), so "never last in its group" is checked on group values as "never at
//!       index 8", and the padding NOOPs at run time belong to C13.

use std::collections::HashSet;
use vm_core::code_blocks::CodeBlock;
use vm_core::crypto::hash::{Rpo256, RpoDigest};
use vm_core::{CodeBlockTable, Felt, Operation, ZERO};

// OPCODES (docs/src/design/stack/op_constraints.md)
// ================================================================================================

pub const NOOP: u8 = 0;
pub const PUSH: u8 = 100;
pub const OP_SPLIT: u8 = 84;
pub const OP_LOOP: u8 = 85;
pub const OP_SPAN: u8 = 86;
pub const OP_JOIN: u8 = 87;
pub const OP_DYN: u8 = 88;
pub const OP_SYSCALL: u8 = 104;
pub const OP_CALL: u8 = 108;

pub const GROUPS_PER_BATCH: usize = 8;
pub const OPS_PER_GROUP: usize = 9;

/// (opcode, documented name) for every row of the four opcode tables.
pub const DOC_OPCODES: [(u8, &str); 88] = [
    (0, "NOOP"),
    (1, "EQZ"),
    (2, "NEG"),
    (3, "INV"),
    (4, "INCR"),
    (5, "NOT"),
    (6, "FMPADD"),
    (7, "MLOAD"),
    (8, "SWAP"),
    (9, "CALLER"),
    (10, "MOVUP2"),
    (11, "MOVDN2"),
    (12, "MOVUP3"),
    (13, "MOVDN3"),
    (14, "ADVPOPW"),
    (15, "EXPACC"),
    (16, "MOVUP4"),
    (17, "MOVDN4"),
    (18, "MOVUP5"),
    (19, "MOVDN5"),
    (20, "MOVUP6"),
    (21, "MOVDN6"),
    (22, "MOVUP7"),
    (23, "MOVDN7"),
    (24, "SWAPW"),
    (25, "EXT2MUL"),
    (26, "MOVUP8"),
    (27, "MOVDN8"),
    (28, "SWAPW2"),
    (29, "SWAPW3"),
    (30, "SWAPDW"),
    (32, "ASSERT"),
    (33, "EQ"),
    (34, "ADD"),
    (35, "MUL"),
    (36, "AND"),
    (37, "OR"),
    (38, "U32AND"),
    (39, "U32XOR"),
    (40, "FRIE2F4"),
    (41, "DROP"),
    (42, "CSWAP"),
    (43, "CSWAPW"),
    (44, "MLOADW"),
    (45, "MSTORE"),
    (46, "MSTOREW"),
    (47, "FMPUPDATE"),
    (48, "PAD"),
    (49, "DUP"),
    (50, "DUP1"),
    (51, "DUP2"),
    (52, "DUP3"),
    (53, "DUP4"),
    (54, "DUP5"),
    (55, "DUP6"),
    (56, "DUP7"),
    (57, "DUP9"),
    (58, "DUP11"),
    (59, "DUP13"),
    (60, "DUP15"),
    (61, "ADVPOP"),
    (62, "SDEPTH"),
    (63, "CLK"),
    (64, "U32ADD"),
    (66, "U32SUB"),
    (68, "U32MUL"),
    (70, "U32DIV"),
    (72, "U32SPLIT"),
    (74, "U32ASSERT2"),
    (76, "U32ADD3"),
    (78, "U32MADD"),
    (80, "HPERM"),
    (81, "MPVERIFY"),
    (82, "PIPE"),
    (83, "MSTREAM"),
    (84, "SPLIT"),
    (85, "LOOP"),
    (86, "SPAN"),
    (87, "JOIN"),
    (88, "DYN"),
    (89, "RCOMBBASE"),
    (96, "MRUPDATE"),
    (100, "PUSH"),
    (104, "SYSCALL"),
    (108, "CALL"),
    (112, "END"),
    (116, "REPEAT"),
    (120, "RESPAN"),
];
pub const OP_HALT: u8 = 124;

pub fn doc_op_name(code: u8) -> Option<&'static str> {
    if code == OP_HALT {
        return Some("HALT");
    }
    DOC_OPCODES.iter().find(|(c, _)| *c == code).map(|(_, n)| *n)
}

/// Flow-control operations are executed by the decoder and never appear inside a span.
pub fn is_flow_control(code: u8) -> bool {
    matches!(code, 84..=88 | 104 | 108 | 112 | 116 | 120 | 124)
}

/// Opcode of a VM operation according to the documented tables (NOT `Operation::op_code()`).
pub fn doc_opcode(op: &Operation) -> u8 {
    use Operation::*;
    match op {
        Noop => 0,
        Eqz => 1,
        Neg => 2,
        Inv => 3,
        Incr => 4,
        Not => 5,
        FmpAdd => 6,
        MLoad => 7,
        Swap => 8,
        Caller => 9,
        MovUp2 => 10,
        MovDn2 => 11,
        MovUp3 => 12,
        MovDn3 => 13,
        AdvPopW => 14,
        Expacc => 15,
        MovUp4 => 16,
        MovDn4 => 17,
        MovUp5 => 18,
        MovDn5 => 19,
        MovUp6 => 20,
        MovDn6 => 21,
        MovUp7 => 22,
        MovDn7 => 23,
        SwapW => 24,
        Ext2Mul => 25,
        MovUp8 => 26,
        MovDn8 => 27,
        SwapW2 => 28,
        SwapW3 => 29,
        SwapDW => 30,
        Assert(_) => 32,
        Eq => 33,
        Add => 34,
        Mul => 35,
        And => 36,
        Or => 37,
        U32and => 38,
        U32xor => 39,
        FriE2F4 => 40,
        Drop => 41,
        CSwap => 42,
        CSwapW => 43,
        MLoadW => 44,
        MStore => 45,
        MStoreW => 46,
        FmpUpdate => 47,
        Pad => 48,
        Dup0 => 49,
        Dup1 => 50,
        Dup2 => 51,
        Dup3 => 52,
        Dup4 => 53,
        Dup5 => 54,
        Dup6 => 55,
        Dup7 => 56,
        Dup9 => 57,
        Dup11 => 58,
        Dup13 => 59,
        Dup15 => 60,
        AdvPop => 61,
        SDepth => 62,
        Clk => 63,
        U32add => 64,
        U32sub => 66,
        U32mul => 68,
        U32div => 70,
        U32split => 72,
        U32assert2(_) => 74,
        U32add3 => 76,
        U32madd => 78,
        HPerm => 80,
        MpVerify => 81,
        Pipe => 82,
        MStream => 83,
        Split => 84,
        Loop => 85,
        Span => 86,
        Join => 87,
        Dyn => 88,
        RCombBase => 89,
        MrUpdate => 96,
        Push(_) => 100,
        SysCall => 104,
        Call => 108,
        End => 112,
        Repeat => 116,
        Respan => 120,
        Halt => 124,
    }
}

/// Immediate carried by an operation: "Currently, the only such operation is a PUSH operation."
pub fn doc_imm(op: &Operation) -> Option<Felt> {
    match op {
        Operation::Push(v) => Some(*v),
        _ => None,
    }
}

// REFERENCE BATCHER
// ================================================================================================

#[derive(Clone, Copy, Debug, PartialEq, Eq)]
pub struct RefOp {
    pub code: u8,
    pub imm: Option<Felt>,
}

impl RefOp {
    pub fn of(op: &Operation) -> RefOp {
        RefOp { code: doc_opcode(op), imm: doc_imm(op) }
    }
}

#[derive(Clone, Copy, Debug, PartialEq, Eq)]
pub enum Slot {
    Empty,
    /// operation group with this many operations placed by the batcher (without trailing NOOPs)
    Ops(usize),
    Imm,
}

#[derive(Clone, Debug)]
pub struct RefBatch {
    pub groups: [u64; GROUPS_PER_BATCH],
    pub slots: [Slot; GROUPS_PER_BATCH],
}

impl RefBatch {
    fn new() -> Self {
        RefBatch { groups: [0; GROUPS_PER_BATCH], slots: [Slot::Empty; GROUPS_PER_BATCH] }
    }
    /// number of groups in use (operation groups and immediates)
    pub fn used(&self) -> usize {
        self.slots.iter().rposition(|s| *s != Slot::Empty && *s != Slot::Ops(0)).map(|i| i + 1).unwrap_or(0)
    }
    /// number of groups as seen by the decoder: padded to 1, 2, 4 or 8
    pub fn padded(&self) -> usize {
        self.used().max(1).next_power_of_two()
    }
    pub fn felts(&self) -> [Felt; GROUPS_PER_BATCH] {
        let mut out = [ZERO; GROUPS_PER_BATCH];
        for i in 0..GROUPS_PER_BATCH {
            out[i] = Felt::new(self.groups[i]);
        }
        out
    }
}

/// What happened while batching (coverage).
#[derive(Clone, Debug, Default)]
pub struct BatchTrace {
    /// accumulator states reached right after placing an operation:
    /// states[g][o] — g groups in use in the batch (1..=8), o operations in the current group (1..=9)
    pub states: [[u32; OPS_PER_GROUP + 1]; GROUPS_PER_BATCH + 1],
    /// an immediate was stored in the last group (index 7) of a batch
    pub imm_at_last_slot: u32,
    /// O1: op with immediate arrived at index 8 of a group and was moved to the next group
    pub imm_op_deferred_from_idx8: u32,
    /// O2: new batch started because no group was free for an immediate
    pub new_batch_no_imm_slot: u32,
    /// new batch started because the current group was full and no group was free
    pub new_batch_groups_full: u32,
    /// an op with immediate ended up as the last placed op of a closed group with < 9 ops (NOOP follows)
    pub imm_op_then_noop: u32,
}

/// Splits `ops` into batches of groups following the documented rules.
pub fn batch_ops(ops: &[RefOp]) -> (Vec<RefBatch>, BatchTrace) {
    let mut tr = BatchTrace::default();
    let mut done: Vec<RefBatch> = vec![];
    let mut cur = RefBatch::new();
    let mut grp = 0usize; // index of the current operation group
    let mut next_free = 1usize; // first group of the batch not in use yet
    let mut n = 0usize; // operations in the current group
    let mut last_was_imm_op = false;

    macro_rules! flush {
        () => {{
            if last_was_imm_op {
                tr.imm_op_then_noop += 1;
            }
            cur.slots[grp] = Slot::Ops(n);
            done.push(std::mem::replace(&mut cur, RefBatch::new()));
            grp = 0;
            next_free = 1;
            n = 0;
            last_was_imm_op = false;
        }};
    }
    macro_rules! next_group {
        () => {{
            if last_was_imm_op && n < OPS_PER_GROUP {
                tr.imm_op_then_noop += 1;
            }
            cur.slots[grp] = Slot::Ops(n);
            grp = next_free;
            next_free += 1;
            n = 0;
            last_was_imm_op = false;
        }};
    }

    for op in ops {
        let has_imm = op.imm.is_some();
        loop {
            if n == OPS_PER_GROUP {
                // the group is full: continue in the next free group, if any
                if next_free >= GROUPS_PER_BATCH {
                    tr.new_batch_groups_full += 1;
                    flush!();
                    continue;
                }
                next_group!();
            }
            if has_imm {
                if n == OPS_PER_GROUP - 1 {
                    // (O1) would be the last operation of the group
                    tr.imm_op_deferred_from_idx8 += 1;
                    if next_free >= GROUPS_PER_BATCH {
                        tr.new_batch_no_imm_slot += 1;
                        flush!();
                        continue;
                    }
                    next_group!();
                }
                if next_free >= GROUPS_PER_BATCH {
                    // (O2) no group left for the immediate value
                    tr.new_batch_no_imm_slot += 1;
                    flush!();
                    continue;
                }
            }
            break;
        }
        cur.groups[grp] |= (op.code as u64) << (7 * n);
        n += 1;
        last_was_imm_op = has_imm;
        if let Some(v) = op.imm {
            cur.groups[next_free] = v.as_int();
            cur.slots[next_free] = Slot::Imm;
            if next_free == GROUPS_PER_BATCH - 1 {
                tr.imm_at_last_slot += 1;
            }
            next_free += 1;
        }
        tr.states[next_free][n] += 1;
    }
    if last_was_imm_op {
        tr.imm_op_then_noop += 1;
    }
    cur.slots[grp] = Slot::Ops(n);
    done.push(cur);
    (done, tr)
}

/// Hash of a span: RPO over the 8 group values of every batch.
pub fn span_hash_of_batches(batches: &[RefBatch]) -> RpoDigest {
    let mut elements: Vec<Felt> = Vec::with_capacity(batches.len() * GROUPS_PER_BATCH);
    for b in batches {
        elements.extend_from_slice(&b.felts());
    }
    Rpo256::hash_elements(&elements)
}

pub fn span_hash(ops: &[RefOp]) -> RpoDigest {
    span_hash_of_batches(&batch_ops(ops).0)
}

// DECODING GROUPS BACK
// ================================================================================================

/// A batch as plain data: group values, operation counts per group (if known) and number of groups.
#[derive(Clone, Debug)]
pub struct PlainBatch {
    pub groups: [u64; GROUPS_PER_BATCH],
    /// number of operations per group as claimed by the producer (0 for immediates / unused)
    pub op_counts: [usize; GROUPS_PER_BATCH],
    pub num_groups: usize,
}

impl PlainBatch {
    pub fn of_ref(b: &RefBatch) -> Self {
        let mut op_counts = [0; GROUPS_PER_BATCH];
        for i in 0..GROUPS_PER_BATCH {
            if let Slot::Ops(n) = b.slots[i] {
                op_counts[i] = n;
            }
        }
        PlainBatch { groups: b.groups, op_counts, num_groups: b.padded() }
    }
}

#[derive(Clone, Debug, Default)]
pub struct Decoded {
    /// all operations in order, trailing NOOPs of a group included when the producer counted them
    pub ops: Vec<RefOp>,
    /// per batch: number of decoded operations
    pub ops_per_batch: Vec<usize>,
    /// rule violations: (stable signature, detail)
    pub issues: Vec<(&'static str, String)>,
    /// per batch: groups in use (highest used index + 1)
    pub used_groups: Vec<usize>,
    /// number of operations in the last operation group of the last batch
    pub ops_in_last_group: usize,
    pub imm_at_last_slot: u32,
    /// groups whose last counted operation carries an immediate (the NOOP after it is implicit)
    pub imm_op_ends_group: u32,
}

/// Reads batches back the way the decoder does: groups in order, 7-bit opcodes from the least
/// significant end, the immediate of a PUSH from the next group of the batch not consumed yet.
/// Checks the documented structural rules on the way.
pub fn decode_batches(batches: &[PlainBatch]) -> Decoded {
    let mut d = Decoded::default();
    for (bi, b) in batches.iter().enumerate() {
        let mut issues: Vec<(&'static str, String)> = vec![];
        let mut issue = |sig: &'static str, detail: String| issues.push((sig, format!("batch {bi}: {detail}")));
        if b.num_groups == 0 || b.num_groups > GROUPS_PER_BATCH {
            issue("batch/num-groups-out-of-range", format!("num_groups = {}", b.num_groups));
        }
        let mut consumed = [false; GROUPS_PER_BATCH];
        let mut used = 0usize;
        let mut slot = 0usize;
        let mut next = 1usize;
        let mut n_ops_batch = 0usize;
        let mut last_group_ops = 0usize;
        while slot < GROUPS_PER_BATCH {
            consumed[slot] = true;
            let v = b.groups[slot];
            let claimed = b.op_counts[slot];
            if v >> 63 != 0 {
                issue("group/more-than-9-ops-encoded", format!("group {slot} value {v:#x} needs more than 63 bits"));
            }
            if claimed > OPS_PER_GROUP {
                issue("group/more-than-9-ops", format!("group {slot} claims {claimed} operations"));
            }
            // number of 7-bit digits needed to write the value
            let vlen = (64 - v.leading_zeros() as usize + 6) / 7;
            if claimed < vlen {
                issue(
                    "group/op-count-below-encoded-ops",
                    format!("group {slot} claims {claimed} operations but its value {v:#x} encodes {vlen}"),
                );
            }
            let m = claimed.max(vlen).min(OPS_PER_GROUP);
            for i in 0..m {
                let code = ((v >> (7 * i)) & 0x7f) as u8;
                let mut imm = None;
                if code == PUSH {
                    if i == OPS_PER_GROUP - 1 {
                        issue("group/imm-op-at-last-position", format!("PUSH at index 8 of group {slot}"));
                    } else if i + 1 == m {
                        // allowed: the NOOP which follows is implicit (opcode 0 in the next position, O3)
                        d.imm_op_ends_group += 1;
                    }
                    if next >= GROUPS_PER_BATCH {
                        issue("batch/imm-outside-batch", format!("no group left in the batch for the immediate of PUSH #{i} of group {slot}"));
                        imm = Some(ZERO);
                    } else {
                        imm = Some(Felt::new(b.groups[next]));
                        consumed[next] = true;
                        if b.op_counts[next] != 0 {
                            issue("group/imm-group-has-op-count", format!("immediate group {next} has op count {}", b.op_counts[next]));
                        }
                        if next == GROUPS_PER_BATCH - 1 {
                            d.imm_at_last_slot += 1;
                        }
                        used = used.max(next + 1);
                        next += 1;
                    }
                } else if doc_op_name(code).is_none() {
                    issue("group/undefined-opcode", format!("group {slot} index {i}: opcode {code} is not in the opcode tables"));
                } else if is_flow_control(code) {
                    issue("group/flow-control-op-in-span", format!("group {slot} index {i}: opcode {code}"));
                }
                d.ops.push(RefOp { code, imm });
                n_ops_batch += 1;
            }
            if m > 0 {
                used = used.max(slot + 1);
                last_group_ops = m;
            }
            slot = next;
            next += 1;
        }
        if used > b.num_groups {
            issue("batch/group-beyond-num-groups", format!("{used} groups in use but num_groups = {}", b.num_groups));
        }
        if b.num_groups <= GROUPS_PER_BATCH && b.num_groups > used.max(1).next_power_of_two() {
            issue("batch/num-groups-above-padding", format!("{used} groups in use but num_groups = {}", b.num_groups));
        }
        d.issues.append(&mut issues);
        d.ops_per_batch.push(n_ops_batch);
        d.used_groups.push(used);
        d.ops_in_last_group = last_group_ops;
    }
    d
}

/// `decoded` equals `input` up to NOOPs that were added (padding). Returns the first mismatch.
pub fn same_up_to_noop_padding(input: &[RefOp], decoded: &[RefOp]) -> Result<usize, String> {
    let mut j = 0usize;
    let mut added = 0usize;
    for (i, d) in decoded.iter().enumerate() {
        if j < input.len() && *d == input[j] {
            j += 1;
        } else if d.code == NOOP {
            added += 1;
        } else {
            return Err(format!(
                "decoded operation #{i} = {:?} but next expected input operation #{j} = {:?}",
                d,
                input.get(j)
            ));
        }
    }
    if j != input.len() {
        return Err(format!("only {j} of {} input operations were found in the groups", input.len()));
    }
    Ok(added)
}

// CONTROL NODES
// ================================================================================================

fn dom(opcode: u8) -> Felt {
    Felt::new(opcode as u64)
}

pub fn zero_digest() -> RpoDigest {
    RpoDigest::new([ZERO; 4])
}

pub fn join_hash(a: RpoDigest, b: RpoDigest) -> RpoDigest {
    Rpo256::merge_in_domain(&[a, b], dom(OP_JOIN))
}
pub fn split_hash(on_true: RpoDigest, on_false: RpoDigest) -> RpoDigest {
    Rpo256::merge_in_domain(&[on_true, on_false], dom(OP_SPLIT))
}
pub fn loop_hash(body: RpoDigest) -> RpoDigest {
    Rpo256::merge_in_domain(&[body, zero_digest()], dom(OP_LOOP))
}
pub fn call_hash(callee: RpoDigest) -> RpoDigest {
    Rpo256::merge_in_domain(&[callee, zero_digest()], dom(OP_CALL))
}
pub fn syscall_hash(callee: RpoDigest) -> RpoDigest {
    Rpo256::merge_in_domain(&[callee, zero_digest()], dom(OP_SYSCALL))
}
pub fn dyn_hash() -> RpoDigest {
    Rpo256::merge_in_domain(&[zero_digest(), zero_digest()], dom(OP_DYN))
}

// WALKING A REAL MAST
// ================================================================================================

#[derive(Clone, Copy, Debug, PartialEq, Eq, Hash, PartialOrd, Ord)]
pub enum Kind {
    Span,
    Join,
    Split,
    Loop,
    Call,
    SysCall,
    DynCall,
    Dyn,
    Proxy,
}

impl Kind {
    pub fn name(&self) -> &'static str {
        match self {
            Kind::Span => "span",
            Kind::Join => "join",
            Kind::Split => "split",
            Kind::Loop => "loop",
            Kind::Call => "call",
            Kind::SysCall => "syscall",
            Kind::DynCall => "dyncall",
            Kind::Dyn => "dyn",
            Kind::Proxy => "proxy",
        }
    }
}

/// One visited node: what the model computed and what the real node reports.
pub struct Visit<'a> {
    pub kind: Kind,
    pub depth: usize,
    pub block: &'a CodeBlock,
    /// hash recomputed bottom-up from the leaves (what `Walker::hash` returns)
    pub model: RpoDigest,
    /// the node's own rule applied to the hashes its children report: localises a deviation to the
    /// node kind at fault instead of flagging every ancestor as well
    pub local: RpoDigest,
    pub real: RpoDigest,
}

pub struct Walker<'a, F: FnMut(Visit<'a>)> {
    pub cb_table: Option<&'a CodeBlockTable>,
    pub on_node: F,
    /// callee roots already walked through the code block table
    pub seen_callees: HashSet<[u8; 32]>,
    /// bottom-up model hash of every callee body walked
    pub callee_models: Vec<([u8; 32], RpoDigest)>,
    /// callee roots present in a call node but absent from the code block table
    pub opaque_callees: usize,
}

pub fn span_ops(block: &vm_core::code_blocks::Span) -> Vec<Operation> {
    let mut out = vec![];
    for b in block.op_batches() {
        out.extend_from_slice(b.ops());
    }
    out
}

impl<'a, F: FnMut(Visit<'a>)> Walker<'a, F> {
    pub fn new(cb_table: Option<&'a CodeBlockTable>, on_node: F) -> Self {
        Walker { cb_table, on_node, seen_callees: HashSet::new(), callee_models: vec![], opaque_callees: 0 }
    }

    /// Recomputes the hash of `block` bottom-up from its public structure only.
    pub fn hash(&mut self, block: &'a CodeBlock, depth: usize) -> RpoDigest {
        let (kind, model, local) = match block {
            CodeBlock::Span(s) => {
                let ops: Vec<RefOp> = span_ops(s).iter().map(RefOp::of).collect();
                let h = span_hash(&ops);
                (Kind::Span, h, h)
            }
            CodeBlock::Join(j) => {
                let a = self.hash(j.first(), depth + 1);
                let b = self.hash(j.second(), depth + 1);
                (Kind::Join, join_hash(a, b), join_hash(j.first().hash(), j.second().hash()))
            }
            CodeBlock::Split(s) => {
                let a = self.hash(s.on_true(), depth + 1);
                let b = self.hash(s.on_false(), depth + 1);
                (Kind::Split, split_hash(a, b), split_hash(s.on_true().hash(), s.on_false().hash()))
            }
            CodeBlock::Loop(l) => {
                let a = self.hash(l.body(), depth + 1);
                (Kind::Loop, loop_hash(a), loop_hash(l.body().hash()))
            }
            CodeBlock::Call(c) => {
                let callee = c.fn_hash();
                // the callee is "a program of which the VM is aware": look it up and recompute it
                let mut callee_model = callee;
                let key: [u8; 32] = callee.into();
                if let Some(t) = self.cb_table {
                    if let Some(body) = t.get(callee) {
                        if self.seen_callees.insert(key) {
                            callee_model = self.hash(body, depth + 1);
                            self.callee_models.push((key, callee_model));
                        } else if let Some((_, m)) = self.callee_models.iter().find(|(k, _)| *k == key) {
                            callee_model = *m;
                        }
                    } else if callee != dyn_hash() {
                        self.opaque_callees += 1;
                    }
                }
                if c.is_syscall() {
                    (Kind::SysCall, syscall_hash(callee_model), syscall_hash(callee))
                } else if callee == dyn_hash() {
                    (Kind::DynCall, call_hash(dyn_hash()), call_hash(dyn_hash()))
                } else {
                    (Kind::Call, call_hash(callee_model), call_hash(callee))
                }
            }
            CodeBlock::Dyn(_) => (Kind::Dyn, dyn_hash(), dyn_hash()),
            CodeBlock::Proxy(p) => (Kind::Proxy, p.hash(), p.hash()),
        };
        (self.on_node)(Visit { kind, depth, block, model, local, real: block.hash() });
        model
    }
}
