//! T-bus: challenge-free recount of the lookups between trace components as MULTISETS OF TUPLES
//! read from the main trace: requests emitted by decoder / stack rows vs. responses provided by
//! chiplet and range-checker rows. Message formats are taken from docs/src/design
//! ({stack/io_ops, stack/u32_ops, stack/crypto_ops, decoder/main, chiplets/*, range}.md).
//!
//! A tuple is `[label, fields...]`; an unmatched tuple is reported with the row and the operation
//! (request side) or chiplet row kind (response side) that produced it.

use crate::tair::op_name;
use crate::tview::*;
use std::collections::HashMap;

#[derive(Clone, Debug)]
pub struct Unmatched {
    /// "memory" | "bitwise" | "kernel-rom" | "hasher" | "range"
    pub relation: &'static str,
    /// "request" (nothing provides it) | "response" (nobody asked for it)
    pub side: &'static str,
    /// message kind + producer, e.g. "mem-read@MLOADW", "hasher-return-hash@chiplet"
    pub kind: String,
    pub tuple: Vec<u64>,
    pub row: usize,
}

impl Unmatched {
    pub fn sig(&self) -> String {
        format!("{}/unmatched-{}/{}", self.relation, self.side, self.kind)
    }
}

/// One bus message as seen on the main trace (used by T-aux to rebuild expected column factors).
#[derive(Clone, Debug)]
pub struct Msg {
    pub row: usize,
    pub is_request: bool,
    pub kind: String,
    /// "memory" | "bitwise" | "kernel-rom" | "hasher"
    pub family: &'static str,
    pub tuple: Vec<u64>,
}

struct Bag {
    family: &'static str,
    // tuple -> (requests: Vec<(row, kind)>, responses: Vec<(row, kind)>)
    m: HashMap<Vec<u64>, (Vec<(usize, String)>, Vec<(usize, String)>)>,
    log: Vec<Msg>,
}

impl Bag {
    fn new(family: &'static str) -> Self {
        Bag { family, m: HashMap::new(), log: vec![] }
    }
    fn req(&mut self, t: Vec<u64>, row: usize, kind: String) {
        self.log.push(Msg { row, is_request: true, kind: kind.clone(), family: self.family, tuple: t.clone() });
        self.m.entry(t).or_default().0.push((row, kind));
    }
    fn resp(&mut self, t: Vec<u64>, row: usize, kind: String) {
        self.log.push(Msg { row, is_request: false, kind: kind.clone(), family: self.family, tuple: t.clone() });
        self.m.entry(t).or_default().1.push((row, kind));
    }
    fn unmatched(self, relation: &'static str, out: &mut Vec<Unmatched>) {
        for (t, (rq, rs)) in self.m {
            if rq.len() > rs.len() {
                for (row, kind) in rq.iter().skip(rs.len()) {
                    out.push(Unmatched { relation, side: "request", kind: kind.clone(), tuple: t.clone(), row: *row });
                }
            } else if rs.len() > rq.len() {
                for (row, kind) in rs.iter().skip(rq.len()) {
                    out.push(Unmatched { relation, side: "response", kind: kind.clone(), tuple: t.clone(), row: *row });
                }
            }
        }
    }
}

pub const L_MEM_READ: u64 = 12;
pub const L_MEM_WRITE: u64 = 4;
pub const L_AND: u64 = 2;
pub const L_XOR: u64 = 6;
pub const L_KROM: u64 = 8;
// hasher transition labels: op label + 16 at the first row of a cycle, + 32 at the last row
pub const L_HASH_BEGIN: u64 = 3 + 16;
pub const L_HASH_ABSORB: u64 = 3 + 32;
pub const L_MP_BEGIN: u64 = 11 + 16;
pub const L_MV_BEGIN: u64 = 7 + 16;
pub const L_MU_BEGIN: u64 = 15 + 16;
pub const L_RETURN_HASH: u64 = 1 + 32;
pub const L_RETURN_STATE: u64 = 9 + 32;

pub struct BusStats {
    /// message kind -> number of requests seen
    pub kinds: HashMap<String, u64>,
}

fn helper(tv: &TV, row: usize, k: usize) -> u64 {
    tv.get(HASHER + 2 + k, row)
}

/// Recounts all chiplet-bus and range-checker lookups of a trace.
pub fn check_buses(tv: &TV) -> (Vec<Unmatched>, BusStats) {
    let (u, s, _) = check_buses_full(tv);
    (u, s)
}

/// Same as `check_buses`, also returning every chiplet-bus message seen (requests and responses).
pub fn check_buses_full(tv: &TV) -> (Vec<Unmatched>, BusStats, Vec<Msg>) {
    let mut mem = Bag::new("memory");
    let mut bit = Bag::new("bitwise");
    let mut krom = Bag::new("kernel-rom");
    let mut hash = Bag::new("hasher");
    let mut range_req: HashMap<u64, (u64, usize, String)> = HashMap::new();
    let mut kinds: HashMap<String, u64> = HashMap::new();
    let mut count = |k: &str| *kinds.entry(k.to_string()).or_default() += 1;

    // ------------------------------------------------------------------ requests (decoder + stack)
    for r in 0..tv.cycles {
        let opc = tv.op(r);
        let op = op_name(opc);
        let s = tv.stack_top(r);
        let sn = tv.stack_top(r + 1);
        let ctx = tv.get(CTX, r);
        let clk = r as u64;
        let mut rc = |v: u64, range_req: &mut HashMap<u64, (u64, usize, String)>| {
            let e = range_req.entry(v).or_insert((0, r, op.clone()));
            e.0 += 1;
        };
        match op.as_str() {
            "MLOADW" => {
                mem.req(vec![L_MEM_READ, ctx, s[0], clk, sn[3], sn[2], sn[1], sn[0]], r, "mem-read@MLOADW".into());
                count("mem-read@MLOADW");
            }
            "MLOAD" => {
                mem.req(vec![L_MEM_READ, ctx, s[0], clk, sn[0], helper(tv, r, 2), helper(tv, r, 1), helper(tv, r, 0)], r, "mem-read@MLOAD".into());
                count("mem-read@MLOAD");
            }
            "MSTOREW" => {
                mem.req(vec![L_MEM_WRITE, ctx, s[0], clk, sn[3], sn[2], sn[1], sn[0]], r, "mem-write@MSTOREW".into());
                count("mem-write@MSTOREW");
            }
            "MSTORE" => {
                mem.req(vec![L_MEM_WRITE, ctx, s[0], clk, sn[0], helper(tv, r, 2), helper(tv, r, 1), helper(tv, r, 0)], r, "mem-write@MSTORE".into());
                count("mem-write@MSTORE");
            }
            "MSTREAM" | "PIPE" => {
                let (label, k) = if op == "MSTREAM" { (L_MEM_READ, "mem-read@MSTREAM") } else { (L_MEM_WRITE, "mem-write@PIPE") };
                mem.req(vec![label, ctx, s[12], clk, sn[7], sn[6], sn[5], sn[4]], r, format!("{k}#1"));
                mem.req(vec![label, ctx, s[12] + 1, clk, sn[3], sn[2], sn[1], sn[0]], r, format!("{k}#2"));
                count(k);
            }
            "RCOMBBASE" => {
                mem.req(vec![L_MEM_READ, ctx, s[13], clk, helper(tv, r, 0), helper(tv, r, 1), helper(tv, r, 2), helper(tv, r, 3)], r, "mem-read@RCOMBBASE#1".into());
                mem.req(vec![L_MEM_READ, ctx, s[14], clk, helper(tv, r, 4), helper(tv, r, 5), 0, 0], r, "mem-read@RCOMBBASE#2".into());
                count("mem-read@RCOMBBASE");
            }
            "U32AND" => {
                // AND / XOR are commutative; the chiplet lists the operands in the opposite order to
                // the request formula of u32_ops.md, so the pair is compared as an unordered pair
                bit.req(vec![L_AND, s[0].min(s[1]), s[0].max(s[1]), sn[0]], r, "bitwise-and@U32AND".into());
                count("bitwise-and@U32AND");
            }
            "U32XOR" => {
                bit.req(vec![L_XOR, s[0].min(s[1]), s[0].max(s[1]), sn[0]], r, "bitwise-xor@U32XOR".into());
                count("bitwise-xor@U32XOR");
            }
            "U32ADD" | "U32SUB" | "U32MUL" | "U32DIV" | "U32SPLIT" | "U32ASSERT2" | "U32ADD3" | "U32MADD" => {
                for k in 0..4 {
                    rc(helper(tv, r, k), &mut range_req);
                }
                count("range@u32-op");
            }
            _ => {}
        }
        // hasher requests of the decoder
        let h = tv.hasher(r);
        let addr = tv.get(ADDR, r);
        let addr_next = tv.get(ADDR, r + 1);
        match op.as_str() {
            "JOIN" | "SPLIT" | "LOOP" | "CALL" | "SYSCALL" | "DYN" | "SPAN" => {
                let domain = if op == "SPAN" { 0 } else { opc as u64 };
                let mut t = vec![L_HASH_BEGIN, addr_next, 0, 0, domain, 0, 0];
                t.extend_from_slice(&h);
                hash.req(t, r, format!("hasher-begin@{op}"));
                count(&format!("hasher-begin@{op}"));
                if op == "SYSCALL" {
                    krom.req(vec![L_KROM, h[0], h[1], h[2], h[3]], r, "kernel-proc-call@SYSCALL".into());
                    count("kernel-proc-call@SYSCALL");
                }
            }
            "RESPAN" => {
                let mut t = vec![L_HASH_ABSORB, addr_next.wrapping_sub(1), 0];
                t.extend_from_slice(&h);
                hash.req(t, r, "hasher-absorb@RESPAN".into());
                count("hasher-absorb@RESPAN");
            }
            "END" => {
                hash.req(vec![L_RETURN_HASH, addr + 7, 0, h[0], h[1], h[2], h[3]], r, "hasher-return-hash@END".into());
                count("hasher-return-hash@END");
            }
            "HPERM" => {
                let a = helper(tv, r, 0);
                let mut t = vec![L_HASH_BEGIN, a, 0];
                for i in (0..12).rev() {
                    t.push(s[i]);
                }
                hash.req(t, r, "hasher-begin@HPERM".into());
                let mut t = vec![L_RETURN_STATE, a + 7, 0];
                for i in (0..12).rev() {
                    t.push(sn[i]);
                }
                hash.req(t, r, "hasher-return-state@HPERM".into());
                count("hasher-begin@HPERM");
            }
            "MPVERIFY" => {
                // stack: [V(0..3), d(4), i(5), R(6..9)]
                let a = helper(tv, r, 0);
                let d = s[4];
                hash.req(vec![L_MP_BEGIN, a, s[5], s[3], s[2], s[1], s[0]], r, "hasher-mp-leaf@MPVERIFY".into());
                hash.req(vec![L_RETURN_HASH, a + 8 * d - 1, 0, s[9], s[8], s[7], s[6]], r, "hasher-return-hash@MPVERIFY".into());
                count("hasher-mp@MPVERIFY");
            }
            "MRUPDATE" => {
                // stack: [V_old(0..3), d(4), i(5), R_old(6..9), V_new(10..13)] -> [R_new(0..3), ...]
                let a = helper(tv, r, 0);
                let d = s[4];
                hash.req(vec![L_MV_BEGIN, a, s[5], s[3], s[2], s[1], s[0]], r, "hasher-mv-leaf@MRUPDATE".into());
                hash.req(vec![L_RETURN_HASH, a + 8 * d - 1, 0, s[9], s[8], s[7], s[6]], r, "hasher-return-hash-old@MRUPDATE".into());
                hash.req(vec![L_MU_BEGIN, a + 8 * d, s[5], s[13], s[12], s[11], s[10]], r, "hasher-mu-leaf@MRUPDATE".into());
                hash.req(vec![L_RETURN_HASH, a + 16 * d - 1, 0, sn[3], sn[2], sn[1], sn[0]], r, "hasher-return-hash-new@MRUPDATE".into());
                count("hasher-mr@MRUPDATE");
            }
            _ => {}
        }
    }

    // ------------------------------------------------------------------ responses (chiplets)
    let mut range_resp: HashMap<u64, u64> = HashMap::new();
    for r in 0..tv.len - 1 {
        match tv.chiplet_kind(r) {
            "memory" => {
                let read = tv.get(CHIP + 3, r) == 1;
                let t = vec![
                    if read { L_MEM_READ } else { L_MEM_WRITE },
                    tv.get(CHIP + 5, r),
                    tv.get(CHIP + 6, r),
                    tv.get(CHIP + 7, r),
                    tv.get(CHIP + 8, r),
                    tv.get(CHIP + 9, r),
                    tv.get(CHIP + 10, r),
                    tv.get(CHIP + 11, r),
                ];
                mem.resp(t, r, if read { "mem-read@chiplet".into() } else { "mem-write@chiplet".into() });
                // range checks requested by the memory chiplet: d0, d1
                for c in [12, 13] {
                    let e = range_req.entry(tv.get(CHIP + c, r)).or_insert((0, r, "memory-row".into()));
                    e.0 += 1;
                }
            }
            "bitwise" if r % 8 == 7 => {
                let label = if tv.get(CHIP + 2, r) == 0 { L_AND } else { L_XOR };
                let (a, b) = (tv.get(CHIP + 3, r), tv.get(CHIP + 4, r));
                bit.resp(vec![label, a.min(b), a.max(b), tv.get(CHIP + 14, r)], r, "bitwise@chiplet".into());
            }
            "kernel" => {
                if tv.get(CHIP + 4, r) == 1 {
                    krom.resp(vec![L_KROM, tv.get(CHIP + 6, r), tv.get(CHIP + 7, r), tv.get(CHIP + 8, r), tv.get(CHIP + 9, r)], r, "kernel-proc-call@chiplet".into());
                }
            }
            "hasher" => {
                let sel = (tv.get(CHIP + 1, r), tv.get(CHIP + 2, r), tv.get(CHIP + 3, r));
                let st: Vec<u64> = (0..12).map(|c| tv.get(CHIP + 4 + c, r)).collect();
                let idx = tv.get(CHIP + 16, r);
                let a = r as u64 + 1;
                if r % 8 == 0 {
                    match sel {
                        (1, 0, 0) => {
                            let mut t = vec![L_HASH_BEGIN, a, idx];
                            t.extend_from_slice(&st);
                            // name the response after the domain in the capacity (= opcode of the
                            // control block being hashed; 0 for spans / hperm / plain hashing)
                            let dom = if st[1] < 128 && st[0] == 0 && st[2] == 0 && st[3] == 0 && st[1] != 0 { op_name(st[1] as u8) } else { "none".to_string() };
                            hash.resp(t, r, format!("hasher-begin@chiplet/domain-{dom}"));
                        }
                        (1, 0, 1) | (1, 1, 0) | (1, 1, 1) => {
                            let label = match sel {
                                (1, 0, 1) => L_MP_BEGIN,
                                (1, 1, 0) => L_MV_BEGIN,
                                _ => L_MU_BEGIN,
                            };
                            let idx_next = tv.get(CHIP + 16, r + 1);
                            let b = idx.wrapping_sub(2u64.wrapping_mul(idx_next));
                            let leaf = if b == 0 { &st[4..8] } else { &st[8..12] };
                            let mut t = vec![label, a, idx];
                            t.extend_from_slice(leaf);
                            hash.resp(t, r, "hasher-merkle-leaf@chiplet".into());
                        }
                        _ => {}
                    }
                } else if r % 8 == 7 {
                    match sel {
                        (1, 0, 0) => {
                            // absorb: the rate of the next row is the absorbed batch
                            let mut t = vec![L_HASH_ABSORB, a, idx];
                            for c in 4..12 {
                                t.push(tv.get(CHIP + 4 + c, r + 1));
                            }
                            hash.resp(t, r, "hasher-absorb@chiplet".into());
                        }
                        (0, 0, 0) => {
                            hash.resp(vec![L_RETURN_HASH, a, idx, st[4], st[5], st[6], st[7]], r, "hasher-return-hash@chiplet".into());
                        }
                        (0, 0, 1) => {
                            let mut t = vec![L_RETURN_STATE, a, idx];
                            t.extend_from_slice(&st);
                            hash.resp(t, r, "hasher-return-state@chiplet".into());
                        }
                        _ => {}
                    }
                }
            }
            _ => {}
        }
        // range checker row: value v looked up m times
        let m = tv.get(RANGE_M, r);
        if m != 0 {
            *range_resp.entry(tv.get(RANGE_V, r)).or_default() += m;
        }
    }

    let mut out = vec![];
    let mut msgs: Vec<Msg> = vec![];
    for b in [&mut mem, &mut bit, &mut krom, &mut hash] {
        msgs.append(&mut b.log);
    }
    mem.unmatched("memory", &mut out);
    bit.unmatched("bitwise", &mut out);
    krom.unmatched("kernel-rom", &mut out);
    hash.unmatched("hasher", &mut out);
    // range: requested count per value must equal the multiplicities provided
    for (v, (n, row, who)) in &range_req {
        let have = range_resp.get(v).copied().unwrap_or(0);
        if have != *n {
            out.push(Unmatched {
                relation: "range",
                side: if have < *n { "request" } else { "response" },
                kind: format!("range-check@{}", if who == "memory-row" { "memory-row" } else { "u32-op" }),
                tuple: vec![*v, *n, have],
                row: *row,
            });
        }
    }
    for (v, m) in &range_resp {
        if !range_req.contains_key(v) {
            out.push(Unmatched { relation: "range", side: "response", kind: "range-check@table".into(), tuple: vec![*v, 0, *m], row: 0 });
        }
    }
    out.sort_by(|a, b| (a.relation, a.row).cmp(&(b.relation, b.row)));
    (out, BusStats { kinds }, msgs)
}
