#!/usr/bin/env bash
# bin/try_seeded.sh <seeded-id> <check-id>...   apply /verif/seeded/<seeded-id>/patch.diff to /repo,
# run the quick tier of the listed checks, undo the patch. Prints which checks raised an alarm.
set -u
SID="$1"; shift
P="/verif/seeded/$SID/patch.diff"
cd /repo || exit 2
if [ -n "$(git status --porcelain --untracked-files=no)" ]; then echo "/repo has uncommitted changes"; exit 2; fi
git apply "$P" || { echo "patch does not apply"; exit 2; }
trap 'git -C /repo checkout -- . ; git -C /verif checkout -- evidence' EXIT
for ID in "$@"; do
  S=$(date +%s)
  VERIF_SEED="${VERIF_SEED:-1}" /verif/bin/check "$ID" "${TIER:-quick}" > "/tmp/p/seeded_${SID}_$ID.log" 2>&1; RC=$?
  E=$(date +%s)
  echo "seeded=$SID check=$ID rc=$RC $((E-S))s violations: $(grep '^VIOLATION' /tmp/p/seeded_${SID}_$ID.log | wc -l) :: $(grep -A1 '^VIOLATION' /tmp/p/seeded_${SID}_$ID.log | grep 'signature=' | sed 's/ count=.*//; s/ *signature=//' | head -6 | tr '\n' ' ')"
done
