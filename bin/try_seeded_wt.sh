#!/usr/bin/env bash
# bin/try_seeded_wt.sh <seeded-id> <worktree> <check-id>...
# Same purpose as try_seeded.sh, but never touches /repo: a private copy of the harness is built
# against <worktree> (a scratch worktree of /repo with the seeded patch applied) and only the
# release lane of each check runs, with evidence / replays written to a scratch root. Use while
# another run is reading /repo. Scratch dir: /tmp/hx/<seeded-id> (removed at the end).
set -u
SID="$1"; WT="$2"; shift 2
HX="/tmp/hx/$SID"; rm -rf "$HX"; mkdir -p "$HX/root/evidence" "$HX/root/replays" /tmp/p
rsync -a --exclude 'target*' --exclude '.mywork' /verif/harness/ "$HX/harness/"
sed -i "s|/repo/|$WT/|g" "$HX/harness/Cargo.toml"
cp /verif/known_findings.json "$HX/root/"
( cd "$HX/harness" && cargo build --release --offline > "$HX/build.log" 2>&1 ) || { tail -n 20 "$HX/build.log"; echo "build failed"; exit 2; }
for ID in "$@"; do
  S=$(date +%s)
  VERIF_REPO_ROOT="$WT" VERIF_ROOT="$HX/root" "$HX/harness/target/release/mvmon" check "$ID" "${TIER:-quick}" --seed "${VERIF_SEED:-1}" > "/tmp/p/seededwt_${SID}_$ID.log" 2>&1; RC=$?
  E=$(date +%s)
  echo "seeded=$SID (worktree, rel lane only) check=$ID rc=$RC $((E-S))s violations: $(grep -c '^VIOLATION' /tmp/p/seededwt_${SID}_$ID.log) :: $(grep -A1 '^VIOLATION' /tmp/p/seededwt_${SID}_$ID.log | grep 'signature=' | sed 's/ count=.*//; s/ *signature=//' | head -6 | tr '\n' ' ')"
done
rm -rf "$HX"
