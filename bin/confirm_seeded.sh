#!/usr/bin/env bash
# bin/confirm_seeded.sh <ID> [worktree]
# Confirms a seeded change produced by a breaker sub-agent in its scratch worktree:
#   1. patch applied: workspace compiles and the existing test suite passes
#   2. demonstration fails with the patch and passes without it
# then copies patch.diff, the demonstration and meta.json to /verif/seeded/<ID>/ and records what
# was run in /verif/seeded/<ID>/confirm.log. Leaves the worktree with the patch applied.
set -u
ID="$1"; WT="${2:-/tmp/wt/$ID}"
OUT="/verif/seeded/$ID"; mkdir -p "$OUT"
LOG="$OUT/confirm.log"; : > "$LOG"
cd "$WT" || exit 2
say() { echo "$@" | tee -a "$LOG"; }
# make sure the patch is applied exactly once
git checkout -q -- . 2>/dev/null   # tracked files back to HEAD; _seeded/ is untracked and stays
if ! git apply --check _seeded/patch.diff 2>/dev/null; then
  # _seeded was stashed away with the untracked files? restore it
  say "patch does not apply cleanly at $(git rev-parse --short HEAD)"; exit 2
fi
EOF_MARK=1
git apply _seeded/patch.diff
say "== patch applied at $(git rev-parse --short HEAD): $(git diff --stat | tail -1)"
say "== existing test suite with the patch"
if cargo test --workspace --no-fail-fast --offline > "$OUT/suite_with_patch.log" 2>&1; then
  P=$(grep -E "^test result" "$OUT/suite_with_patch.log" | awk '{s+=$4} END {print s}')
  F=$(grep -E "^test result" "$OUT/suite_with_patch.log" | awk '{s+=$6} END {print s}')
  say "suite: exit 0, passed=$P failed=$F"
else
  say "suite: FAILED with the patch"; grep -E "FAILED|failed" "$OUT/suite_with_patch.log" | head -5 | tee -a "$LOG"; exit 1
fi
rm -f "$OUT/suite_with_patch.log"
say "== demonstration with the patch (must fail)"
bash _seeded/demo.sh > "$OUT/demo_with_patch.log" 2>&1; RC1=$?
say "demo exit with patch: $RC1"
git apply -R _seeded/patch.diff
say "== demonstration without the patch (must pass)"
bash _seeded/demo.sh > "$OUT/demo_without_patch.log" 2>&1; RC0=$?
say "demo exit without patch: $RC0"
git apply _seeded/patch.diff
tail -n 15 "$OUT/demo_with_patch.log" > "$OUT/demo_with_patch.tail"; rm -f "$OUT/demo_with_patch.log" "$OUT/demo_without_patch.log"
if [ "$RC1" -ne 0 ] && [ "$RC0" -eq 0 ]; then
  cp -r _seeded/. "$OUT/"
  say "CONFIRMED $ID"
  exit 0
fi
say "NOT CONFIRMED $ID"; exit 1
