#!/usr/bin/env python3
"""Regenerates /verif/MANIFEST.json from the table below (run after adding a property check)."""
import json, os

ROOT = os.path.dirname(os.path.dirname(os.path.abspath(__file__)))

# id -> (category, technique, level text, level note, design ref)
CHECKS = {
    "C01": ("exploration",
            "runtime monitor: generated programs executed, proved and verified by the real pipeline under all four option sets; oracle at the prove/verify API",
            "Held on K generated (program, inputs, option set) executions covering the listed VM opcodes, padding regimes, trace lengths and stack-depth classes; completeness is decided only over what the generators produced.",
            "trusts winterfell as part of the system under test; generators in harness/src/gen.rs", "DESIGN.md §4 C01"),
    "C02": ("fault_enumeration",
            "fault injection at the verify() boundary with an accept/reject/panic oracle: single-field statement alterations (constructors, stack_mut, crafted bytes), per-region proof byte corruption, truncation, hash-tag relabelling, deterministic enumeration of the proof context bytes, honest proofs under non-accepted options",
            "Every injected alteration of K honest tuples was rejected (or is reported); evidence lists alteration kinds, regions, outcomes and equivalent-statement cases that were skipped.",
            "binding under single alterations only; adaptive-prover soundness is cryptographic and not observable", "DESIGN.md §4 C02"),
    "C03": ("exploration",
            "trace-specification monitor (T-air/T-shape): every AIR transition constraint and boundary assertion evaluated on every row of every generated execution, several random challenges in two extension fields, three capacity hints; rel + debug-assertions lanes",
            "Held on K honest traces; evidence lists opcodes seen on rows, regimes, lengths; challenges are sampled.",
            "ProcessorAir::evaluate_transition/get_assertions are the executable specification", "DESIGN.md §4 C03"),
    "C04": ("fault_enumeration",
            "F-cell fault injection: single-cell alterations (20 wrong values each: neighbours, +-1, 0, 1, 2v, +2^16, +2^32, -v, 12 random) of every enforced cell of sampled honest transitions, judged by the real evaluate_transition (+ b_range aux constraint); enforced-set table written from the design docs",
            "Every mutant of an enforced cell on K honest frames was killed (or is reported); evidence lists killed/escaped per (operation or chiplet row kind, cell, role), free/outside-statement cells, and which constraints ever fired.",
            "single-cell single-transition alterations; enforced-set table (docs) is the trusted base", "DESIGN.md §4 C04"),
    "C05": ("exploration",
            "differential runtime monitor: real assemble+execute vs. a reference interpreter of Miden assembly instructions written from the user docs (three-valued: defined / fails-with-kind / undefined); boundary operand grid in every operand position, every immediate form, initial stacks of depth 0..40 with unique deep elements, random instruction sequences; rel + dbg lanes; AIR side monitor on a sample",
            "Held on K (instruction, operands, stack) cases covering every instruction kind succeeding and every documented failing case failing.",
            "reference interpreter models/isa.rs (docs) is the trusted base; doc errata are listed in the evidence", "DESIGN.md §4 C05"),
    "C13": ("exploration",
            "trace-specification monitor (T-dec): an independent MAST walker driven by the decisions read from the trace (conditions at SPLIT/LOOP/REPEAT, dyn targets) predicts the operation stream, spans decoded from their group values; compared with the decoder's op bits and with execute_iter; NOOP placement, in_span / group_count bookkeeping, final program hash",
            "Held on K traces covering every block kind, nesting depth up to 8, spans of more than 5 batches and loops with 0..3+ iterations.",
            "the assembled MAST and its code block table are the specification", "DESIGN.md §4 C13"),
    "C06": ("exploration",
            "reference-model monitor: scripted condition values (0, 1, non-binary at if / loop entry / after an iteration) driven through generated if/while/repeat/exec nestings; executed path read back from a marker log and compared with a reference evaluator; metamorphic pairs repeat.n vs n copies and exec vs inlined body; rel + dbg lanes",
            "Held on K generated control-flow programs covering every decision kind x nesting depth 1..3 x condition class.",
            "reference evaluator written from flow_control.md / code_organization.md", "DESIGN.md §4 C06"),
    "C07": ("exploration",
            "offline history checker: generated call/syscall/dyncall/dynexec/exec nestings performing loads and stores over a small colliding address set with unique values; every probe (recording host), final memory of every context and the memory-chiplet rows of the trace are replayed against a context/memory model; invalid addresses and bad return depths must fail",
            "Held on K histories covering every memory op kind in root/call/nested-call/syscall contexts and every invalid-address class.",
            "M-ctx model written from execution_contexts.md and io_operations.md", "DESIGN.md §4 C07"),
    "C08": ("exploration",
            "reference-model monitor: spec batcher + RPO (miden-crypto called directly) recompute span and control-node hashes; exhaustive push/non-push patterns up to a length bound plus random spans, MAST walks of generated/stdlib/example programs, metamorphic source edits (comments, names, debug mode, decorators vs. op/immediate changes), hash recorded by execution",
            "Held on K spans (all patterns to the bound) and K MAST nodes; evidence lists accumulator states and node kinds reached.",
            "M-mast written from programs.md / decoder/main.md; miden-crypto RPO trusted", "DESIGN.md §4 C08"),
    "C09": ("fault_enumeration",
            "fault injection with a scripted dishonest Host: every hint / Merkle path a host can return is replaced by wrong values (exhaustive over small ranges, boundary and random elsewhere, structurally wrong paths); oracle = execution fails or the result equals the native reference",
            "Every dishonest run either failed or produced the correct result (or is reported); evidence lists instruction x hint-relation coverage and the panics observed.",
            "native references (bit ops, u64 division, extension-field inverse, MerkleTree)", "DESIGN.md §4 C09"),
    "C10": ("exploration",
            "round-trip monitor: generated sources covering every serde opcode and immediate form parsed, serialised/deserialised under all option combinations, compared under the library's equality and recompiled (same MAST root, kernel, outputs); libraries, program info, kernels, stack inputs/outputs, proofs likewise",
            "Held on K ASTs / values; every serde opcode encoded (floor).",
            "equality as defined by the library (after source-location / import-info restoration)", "DESIGN.md §4 C10"),
    "C11": ("exploration",
            "history monitor: random compilation sequences on one assembler instance vs. a fresh instance per program (root, kernel, code-block table, run-time availability of statically referenced targets), library-order permutations, re-exports, and a corpus of invalid sources that must be rejected without panic; rel + dbg lanes",
            "Held on K compilation histories covering every invocation kind cold and warm and every invalid class.",
            "rejection classes taken from the assembly docs", "DESIGN.md §4 C11"),
    "C12": ("exploration",
            "offline conservation checker over the main trace as event log (T-bus: multiset equality of request and response tuples for memory, bitwise, kernel ROM, hasher, range checks) plus row-level check of the real auxiliary columns (T-aux: b_chip per-row factors from the T-bus messages, chain products for block-stack / block-hash / op-group / sibling / kernel tables, terminal values) for random challenges",
            "Held on K traces covering every bus message kind; imbalances are attributed to the operation or table event.",
            "message formats from docs/src/design; RESPAN absorb compared semantically", "DESIGN.md §4 C12"),
    "C16": ("exploration",
            "reference-model monitor: every exported procedure of std::math::u64 and u256 run on limb-boundary grids, all shift amounts and random operands with a canary below; oracle = native u64/u128/BigUint arithmetic; AIR side monitor on a sample",
            "Held on K (procedure, operands) cases incl. the full {0,1,2^32-1}^4 grid per binary procedure.",
            "native integer arithmetic", "DESIGN.md §4 C16"),
    "C17": ("exploration",
            "reference-model monitor: blake3 / sha256 / keccak256 procedures vs. the blake3, sha2, sha3 crates on structured and random blocks; native RPO helpers vs. Rpo256 on memory-resident sequences",
            "Held on K digests covering every exported procedure and length class.",
            "reference crates", "DESIGN.md §4 C17"),
    "C18": ("exploration",
            "lock-step monitor: truncate_stack at every depth 16..80, memcopy / pipe_* against a memory model, SMT and MMR operation sequences against miden-crypto's native Smt / Mmr (advice derived from the native structure before each step)",
            "Held on K operation sequences covering every SMT leaf-state transition and MMR merge depth.",
            "native Smt / Mmr / Rpo256", "DESIGN.md §4 C18"),
    "C19": ("fault_enumeration",
            "hostile-bytes monitor: structure-aware mutations of valid encodings and random bytes into every decoder under catch_unwind, decode -> re-encode -> decode equality oracle, verify() on decoded statements, constructor value grids; plus a libFuzzer lane (lanes/C19.sh) with the same oracle",
            "Every decoder returned Err or a re-encodable value on K mutated inputs (or the panic site is reported).",
            "allocation pre-sizing from attacker-controlled counts is recorded, not judged", "DESIGN.md §4 C19"),
    "C14": ("exploration",
            "runtime monitor: configuration lattice (re-run, tracing, capacity hints, debug-mode assembly, decorator-stripped source) with cell-by-cell trace comparison; random next()/back() walks of the step iterator checked against the trace row of the same clock (stack incl. overflow model rebuilt from the trace, fmp, ctx, memory-chiplet history); CLK rows",
            "Held on K programs x configurations and K iterator states visited in both directions; evidence lists configurations, direction counts, deep-stack states.",
            "the trace of a plain execute() run is the reference; deep stack compared only in the root context", "DESIGN.md §4 C14"),
    "C15": ("exploration",
            "runtime monitor with a recording host: limits swept around the natural cycle count from an unlimited run; offline check of host callback clocks (prefix + none after the limit); options grid",
            "Held on K (program, limit) runs covering every relation of the limit to the natural cycle count, non-terminating programs up to 2^16 cycles, and the options grid.",
            "natural cycle count taken from the same real code", "DESIGN.md §4 C15"),
}

NOT_YET = {
}

def main():
    props = [json.loads(l) for l in open(os.path.join(ROOT, "properties.jsonl"))]
    checks = []
    na = []
    for p in props:
        pid = p["id"]
        if pid in CHECKS:
            cat, tech, text, note, ref = CHECKS[pid]
            checks.append({
                "property_id": pid,
                "quick_cmd": f"bin/check {pid} quick",
                "thorough_cmd": f"bin/check {pid} thorough",
                "evidence_file": f"/verif/evidence/{pid}.json",
                "replay_cmd_template": "bin/check --replay {path}",
                "engine": "mvmon",
                "level_claimed": {"category": cat, "text": text, "design_ref": ref},
                "level_note": note,
                "technique": tech,
            })
        else:
            na.append({"property_id": pid, "reason": NOT_YET.get(pid, "monitor not built yet in this revision (planned, see DESIGN.md §4); not claimed until its check is silent on the unchanged tree")})
    man = {
        "version": 1,
        "setup_cmd": "bin/setup",
        "hooks": {
            "guard": "none (no source hooks; the harness uses the pre-existing cargo feature \"internals\" of miden-processor/miden-air and public APIs only)",
            "enable": "harness/Cargo.toml path-depends on /repo crates with features=[\"internals\"]; nothing to switch on in /repo",
            "baseline_off_cmd": "cd /repo && cargo test --workspace --no-fail-fast --offline",
            "source_commits": [],
            "add_only": True,
        },
        "engines": [
            {"name": "mvmon", "path": "harness/", "serves_properties": sorted(CHECKS.keys()),
             "kind_free_text": "Rust runtime-monitoring harness linked against /repo by path: workload generators, reference models, trace monitors (AIR evaluation, bus recount), fault injectors, recording/dishonest hosts; rel and debug-assertions lanes"},
        ],
        "checks": checks,
        "not_applicable": na,
        "notes": "All checks: exit 0 held / 1 VIOLATION / 2 INCONCLUSIVE. Genuine defects found are repaired by fix: commits in /repo or listed in /verif/known_findings.json (status known | fixed; see DESIGN.md §5). Sanitizer lanes (valgrind memcheck, Miri Tree Borrows) run inside bin/check C03, the libFuzzer lane inside bin/check C19. Seeded property-breaking changes used to validate the checks are kept under /verif/seeded (DESIGN.md §10); none is applied to /repo.",
    }
    json.dump(man, open(os.path.join(ROOT, "MANIFEST.json"), "w"), indent=1)
    print("wrote MANIFEST.json with", len(checks), "checks,", len(na), "not_applicable")

if __name__ == "__main__":
    main()
