#!/usr/bin/env python3
"""Regenerates /verif/MANIFEST.json from the table below (run after adding a property check)."""
import json, os

ROOT = os.path.dirname(os.path.dirname(os.path.abspath(__file__)))

# id -> (category, technique, level text, level note, design ref)
CHECKS = {
    "C01": ("exploration",
            "runtime monitor: generated programs executed, proved and verified by the real pipeline under all four option sets; oracle at the prove/verify API",
            "Held on K generated (program, inputs, option set) executions covering the listed VM opcodes, padding regimes, trace lengths and stack-depth classes; completeness is decided only over what the generators produced.",
            "trusts winterfell as part of the system under test; generators in harness/src/gen.rs", "DESIGN.md §4 C01"),
    "C02": ("fault_enumeration",
            "fault injection at the verify() boundary with an accept/reject/panic oracle: single-field statement alterations (constructors, stack_mut, crafted bytes), per-region proof byte corruption, truncation, hash-tag relabelling, deterministic enumeration of the proof context bytes, honest proofs under non-accepted options",
            "Every injected alteration of K honest tuples was rejected (or is reported); evidence lists alteration kinds, regions, outcomes and equivalent-statement cases that were skipped.",
            "binding under single alterations only; adaptive-prover soundness is cryptographic and not observable", "DESIGN.md §4 C02"),
    "C03": ("exploration",
            "trace-specification monitor (T-air/T-shape): every AIR transition constraint and boundary assertion evaluated on every row of every generated execution, several random challenges in two extension fields, three capacity hints; rel + debug-assertions lanes",
            "Held on K honest traces; evidence lists opcodes seen on rows, regimes, lengths; challenges are sampled.",
            "ProcessorAir::evaluate_transition/get_assertions are the executable specification", "DESIGN.md §4 C03"),
    "C14": ("exploration",
            "runtime monitor: configuration lattice (re-run, tracing, capacity hints, debug-mode assembly, decorator-stripped source) with cell-by-cell trace comparison; random next()/back() walks of the step iterator checked against the trace row of the same clock (stack incl. overflow model rebuilt from the trace, fmp, ctx, memory-chiplet history); CLK rows",
            "Held on K programs x configurations and K iterator states visited in both directions; evidence lists configurations, direction counts, deep-stack states.",
            "the trace of a plain execute() run is the reference; deep stack compared only in the root context", "DESIGN.md §4 C14"),
    "C15": ("exploration",
            "runtime monitor with a recording host: limits swept around the natural cycle count from an unlimited run; offline check of host callback clocks (prefix + none after the limit); options grid",
            "Held on K (program, limit) runs covering every relation of the limit to the natural cycle count, non-terminating programs up to 2^16 cycles, and the options grid.",
            "natural cycle count taken from the same real code", "DESIGN.md §4 C15"),
}

NOT_YET = {
}

def main():
    props = [json.loads(l) for l in open(os.path.join(ROOT, "properties.jsonl"))]
    checks = []
    na = []
    for p in props:
        pid = p["id"]
        if pid in CHECKS:
            cat, tech, text, note, ref = CHECKS[pid]
            checks.append({
                "property_id": pid,
                "quick_cmd": f"bin/check {pid} quick",
                "thorough_cmd": f"bin/check {pid} thorough",
                "evidence_file": f"/verif/evidence/{pid}.json",
                "replay_cmd_template": "bin/check --replay {path}",
                "engine": "mvmon",
                "level_claimed": {"category": cat, "text": text, "design_ref": ref},
                "level_note": note,
                "technique": tech,
            })
        else:
            na.append({"property_id": pid, "reason": NOT_YET.get(pid, "monitor not built yet in this revision (planned, see DESIGN.md §4); not claimed until its check is silent on the unchanged tree")})
    man = {
        "version": 1,
        "setup_cmd": "bin/setup",
        "hooks": {
            "guard": "none (no source hooks; the harness uses the pre-existing cargo feature \"internals\" of miden-processor/miden-air and public APIs only)",
            "enable": "harness/Cargo.toml path-depends on /repo crates with features=[\"internals\"]; nothing to switch on in /repo",
            "baseline_off_cmd": "cd /repo && cargo test --workspace --no-fail-fast --offline",
            "source_commits": [],
            "add_only": True,
        },
        "engines": [
            {"name": "mvmon", "path": "harness/", "serves_properties": sorted(CHECKS.keys()),
             "kind_free_text": "Rust runtime-monitoring harness linked against /repo by path: workload generators, reference models, trace monitors (AIR evaluation, bus recount), fault injectors, recording/dishonest hosts; rel and debug-assertions lanes"},
        ],
        "checks": checks,
        "not_applicable": na,
        "notes": "All checks: exit 0 held / 1 VIOLATION / 2 INCONCLUSIVE. Genuine defects found are repaired by fix: commits in /repo or listed in known_findings.json (see DESIGN.md §5).",
    }
    json.dump(man, open(os.path.join(ROOT, "MANIFEST.json"), "w"), indent=1)
    print("wrote MANIFEST.json with", len(checks), "checks,", len(na), "not_applicable")

if __name__ == "__main__":
    main()
