#![no_main]
mod common;
use assembly::ast::{Instruction, ModuleImports, Node, ProcReExport, ProcedureAst};
use assembly::{LibraryNamespace, LibraryPath, ProcedureId, ProcedureName, Version};
use libfuzzer_sys::fuzz_target;
use vm_core::crypto::hash::RpoDigest;
use vm_core::utils::{Deserializable, Serializable};

fuzz_target!(|data: &[u8]| {
    let Some((sel, b)) = data.split_first() else { return };
    match sel % 11 {
        0 => common::cycle(b, LibraryPath::read_from_bytes, |v| v.to_bytes()),
        1 => common::cycle(b, LibraryNamespace::read_from_bytes, |v| v.to_bytes()),
        2 => common::cycle(b, Version::read_from_bytes, |v| v.to_bytes()),
        3 => common::cycle(b, ProcedureName::read_from_bytes, |v| v.to_bytes()),
        4 => common::cycle(b, ProcedureId::read_from_bytes, |v| v.to_bytes()),
        5 => common::cycle(b, ModuleImports::read_from_bytes, |v| v.to_bytes()),
        6 => common::cycle(b, ProcedureAst::read_from_bytes, |v| v.to_bytes()),
        7 => common::cycle(b, ProcReExport::read_from_bytes, |v| v.to_bytes()),
        8 => common::cycle(b, Node::read_from_bytes, |v| v.to_bytes()),
        9 => common::cycle(b, Instruction::read_from_bytes, |v| v.to_bytes()),
        _ => common::cycle(b, RpoDigest::read_from_bytes, |v| v.to_bytes()),
    }
});
