#![no_main]
mod common;
use assembly::MaslLibrary;
use libfuzzer_sys::fuzz_target;
use vm_core::utils::{Deserializable, Serializable};

fuzz_target!(|data: &[u8]| {
    common::cycle(data, MaslLibrary::read_from_bytes, |l| l.to_bytes());
});
