#![no_main]
mod common;
use air::ExecutionProof;
use libfuzzer_sys::fuzz_target;
use vm_core::utils::{Deserializable, Serializable};

fuzz_target!(|data: &[u8]| {
    let Some((sel, rest)) = data.split_first() else { return };
    if sel % 2 == 0 {
        common::cycle(rest, ExecutionProof::from_bytes, |p| p.to_bytes());
    } else {
        common::cycle(rest, ExecutionProof::read_from_bytes, |p| Serializable::to_bytes(p));
    }
});
