#![no_main]
mod common;
use common::list_ok;
use libfuzzer_sys::fuzz_target;
use vm_core::utils::{Deserializable, Serializable};
use vm_core::{Kernel, ProgramInfo, StackInputs, StackOutputs};

fn outputs_ok(b: &[u8], o: usize) -> bool {
    match list_ok(b, o) {
        (false, _) => false,
        (true, Some(n)) if n <= b.len() => list_ok(b, n).0,
        _ => true,
    }
}

fuzz_target!(|data: &[u8]| {
    let Some((sel, b)) = data.split_first() else { return };
    match sel % 5 {
        0 => common::cycle(b, Kernel::read_from_bytes, |v| v.to_bytes()),
        1 => common::cycle(b, ProgramInfo::read_from_bytes, |v| v.to_bytes()),
        2 => {
            if list_ok(b, 0).0 {
                common::cycle(b, StackInputs::read_from_bytes, |v| v.to_bytes())
            }
        }
        3 => {
            if outputs_ok(b, 0) {
                common::cycle(b, StackOutputs::read_from_bytes, |v| v.to_bytes())
            }
        }
        _ => {
            // ProgramInfo (32-byte digest, u16 kernel length, 32 bytes per procedure), inputs, outputs
            let Some(k) = b.get(32..34).map(|s| u16::from_le_bytes([s[0], s[1]]) as usize) else { return };
            let o = 34 + 32 * k;
            let ok = match list_ok(b, o) {
                (false, _) => false,
                (true, Some(n)) if n <= b.len() => outputs_ok(b, n),
                _ => true,
            };
            if ok {
                common::cycle(b, air::PublicInputs::read_from_bytes, |v| v.to_bytes())
            }
        }
    }
});
