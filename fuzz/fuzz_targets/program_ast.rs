#![no_main]
mod common;
use assembly::ast::{AstSerdeOptions, ProgramAst};
use libfuzzer_sys::fuzz_target;
use vm_core::utils::SliceReader;

fuzz_target!(|data: &[u8]| {
    let opts = AstSerdeOptions::new(data.first().copied() == Some(1));
    common::cycle(data, ProgramAst::from_bytes, |a| a.to_bytes(opts));
    // container followed by its source locations
    common::cycle(
        data,
        |b| {
            let mut r = SliceReader::new(b);
            let mut a = ProgramAst::read_from(&mut r)?;
            a.load_source_locations(&mut r)?;
            Ok(a)
        },
        |a| {
            let mut out = a.to_bytes(opts);
            a.write_source_locations(&mut out);
            out
        },
    );
});
