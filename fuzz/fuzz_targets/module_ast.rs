#![no_main]
mod common;
use assembly::ast::{AstSerdeOptions, ModuleAst};
use libfuzzer_sys::fuzz_target;
use vm_core::utils::{Deserializable, SliceReader};

fuzz_target!(|data: &[u8]| {
    let opts = AstSerdeOptions::new(data.first().copied() == Some(1));
    common::cycle(data, ModuleAst::from_bytes, |a| a.to_bytes(opts));
    common::cycle(
        data,
        |b| {
            let mut r = SliceReader::new(b);
            let o = AstSerdeOptions::read_from(&mut r)?;
            let mut a = ModuleAst::read_from(&mut r, o)?;
            a.load_source_locations(&mut r)?;
            Ok(a)
        },
        |a| {
            let mut out = a.to_bytes(opts);
            a.write_source_locations(&mut out);
            out
        },
    );
});
