// Shared oracle of all targets: decode; on Ok re-encode, decode the re-encoding (must succeed),
// re-encode again (must be identical). A panic anywhere is the crash libFuzzer reports.
//
// Memory: `read_many(count)` pre-allocates `count` elements from an untrusted u32 before reading
// (StackInputs / StackOutputs / PublicInputs). The lane runs with -rss_limit_mb=0 -malloc_limit_mb=0;
// targets additionally skip inputs whose modelled request exceeds 2^28 bytes, because a failed
// allocation aborts the process and would be reported as a crash that is not a panic.

#[allow(dead_code)]
pub fn cycle<T>(
    data: &[u8],
    dec: impl Fn(&[u8]) -> Result<T, vm_core::utils::DeserializationError>,
    enc: impl Fn(&T) -> Vec<u8>,
) {
    if let Ok(v) = dec(data) {
        let e1 = enc(&v);
        let v2 = match dec(&e1) {
            Ok(v2) => v2,
            Err(e) => panic!("ORACLE reject-own-encoding: {e}"),
        };
        let e2 = enc(&v2);
        assert!(e1 == e2, "ORACLE unstable-encoding");
    }
}

#[allow(dead_code)]
pub fn u32_at(b: &[u8], o: usize) -> Option<u64> {
    b.get(o..o + 4).map(|s| u32::from_le_bytes([s[0], s[1], s[2], s[3]]) as u64)
}

/// true if a list of 8-byte elements starting at `o` (u32 count) stays under the cap; returns the
/// offset after the list
#[allow(dead_code)]
pub fn list_ok(b: &[u8], o: usize) -> (bool, Option<usize>) {
    match u32_at(b, o) {
        Some(c) if c * 8 > (1 << 28) => (false, None),
        Some(c) => (true, Some(o + 4 + 8 * c as usize)),
        None => (true, None),
    }
}
